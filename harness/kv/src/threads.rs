//! `kv threads` (arc build only): several runtimes, one per OS thread, share one list or map and run
//! their scripts concurrently (C19).  Each script sees the container as `shared`; what it prints is its
//! record of results.  A panic in a thread is data; a round that does not finish within the watchdog
//! period is reported as `hang` (deadlock) and the process exits, since the threads cannot be recovered.

use serde_json::{Value as J, json};

#[cfg(feature = "arc")]
pub fn threads_job(job: &J) -> J {
    use crate::capture::Capture;
    use koto_runtime::{KList, KMap, KValue, KotoVm, KotoVmSettings, prelude::*};
    use std::panic::{AssertUnwindSafe, catch_unwind};
    use std::sync::{Arc, Barrier, mpsc};
    use std::time::Duration;

    let id = job.get("id").cloned().unwrap_or(J::Null);
    let kind = job.get("kind").and_then(|v| v.as_str()).unwrap_or("list").to_string();
    let scripts: Vec<String> = job
        .get("scripts")
        .and_then(|v| v.as_array())
        .map(|a| a.iter().filter_map(|s| s.as_str().map(String::from)).collect())
        .unwrap_or_default();
    let init: Vec<i64> = job
        .get("init")
        .and_then(|v| v.as_array())
        .map(|a| a.iter().filter_map(|x| x.as_i64()).collect())
        .unwrap_or_default();

    let shared: KValue = if kind == "map" {
        let m = KMap::default();
        for k in &init {
            m.insert(format!("k{k}").as_str(), *k);
        }
        m.into()
    } else {
        KList::from_slice(&init.iter().map(|n| KValue::from(*n)).collect::<Vec<_>>()).into()
    };

    // how long the round may go without any thread finishing before it is reported as hung (deadlock)
    let watchdog_s = job.get("watchdog_s").and_then(|v| v.as_u64()).unwrap_or(30);
    let n = scripts.len();
    let barrier = Arc::new(Barrier::new(n));
    let (tx, rx) = mpsc::channel::<(usize, J)>();
    for (t, src) in scripts.into_iter().enumerate() {
        let shared = shared.clone();
        let barrier = barrier.clone();
        let tx = tx.clone();
        std::thread::spawn(move || {
            // panics of this thread are recorded by the process-wide hook into a thread local
            let r = catch_unwind(AssertUnwindSafe(|| {
                let cap = Capture::default();
                let mut vm = KotoVm::with_settings(KotoVmSettings {
                    stdout: make_ptr!(cap.clone()),
                    stderr: make_ptr!(cap.clone()),
                    execution_limit: Some(Duration::from_secs(20)),
                    ..Default::default()
                });
                vm.prelude().insert("shared", shared);
                let chunk = vm.loader().borrow_mut().compile_script(&src, None, Default::default());
                barrier.wait();
                let status = match chunk {
                    Err(e) => json!({"status": "compile_error", "err_msg": e.to_string()}),
                    Ok(chunk) => match vm.run(chunk) {
                        Ok(_) => json!({"status": "ok"}),
                        Err(e) => json!({"status": "runtime_error", "err_msg": e.to_string()}),
                    },
                };
                let mut status = status;
                status["stdout"] = J::String(cap.text());
                status
            }));
            let out = match r {
                Ok(o) => o,
                Err(_) => json!({"status": "panic", "err_msg": crate::capture::take_panic().unwrap_or_default()}),
            };
            let _ = tx.send((t, out));
        });
    }
    drop(tx);
    let mut results: Vec<J> = vec![J::Null; n];
    let mut got = 0;
    while got < n {
        match rx.recv_timeout(Duration::from_secs(watchdog_s)) {
            Ok((t, o)) => {
                results[t] = o;
                got += 1;
            }
            Err(_) => {
                return json!({"id": id, "status": "hang", "threads": results, "exit_after": true});
            }
        }
    }
    // the final contents, displayed by a fresh runtime
    let mut vm = KotoVm::default();
    let fin = match &shared {
        KValue::Map(m) => {
            // sorted by key: the order of concurrent insertions is not part of the result
            let mut entries: Vec<(String, String)> = m
                .data()
                .iter()
                .map(|(k, v)| (crate::run::display(&mut vm, k.value()), crate::run::display(&mut vm, v)))
                .collect();
            entries.sort();
            json!(entries)
        }
        KValue::List(l) => {
            let items: Vec<String> = l.data().iter().map(|v| crate::run::display(&mut vm, v)).collect();
            json!(items)
        }
        _ => J::Null,
    };
    json!({"id": id, "status": "ok", "threads": results, "final": fin})
}

#[cfg(not(feature = "arc"))]
pub fn threads_job(job: &J) -> J {
    json!({"id": job.get("id").cloned().unwrap_or(J::Null), "status": "unsupported", "err_msg": "kv threads needs the arc build"})
}
