//! `kv session`: a history of operations on ONE runtime instance (koto::Koto), for C07.
//!
//! job:    {id, limit_ms?, ops: [{op: "run", src, run_tests?} | {op: "call", name, args: [int...]} |
//!                              {op: "display", name} | {op: "call_value", kind} | {op: "clear_cache"} |
//!                              {op: "write_file", path, src}]}
//! result: {id, steps: [{status, value?, err_class?, state: {d, r, b, q, t}, events, x?, lst?}]}

use crate::capture::{Capture, take_panic};
use koto::prelude::*;
use serde_json::{Value as J, json};
use std::panic::{AssertUnwindSafe, catch_unwind};
use std::time::{Duration, Instant};

fn classify(e: &koto::Error) -> (&'static str, String) {
    match e {
        koto::Error::CompileError { error, .. } => ("compile", error.clone()),
        koto::Error::MissingFunction(s) => ("missing_function", s.clone()),
        koto::Error::StringError(s) => {
            if s.starts_with("execution timed out") {
                ("timeout", s.clone())
            } else {
                ("error", s.clone())
            }
        }
        #[allow(unreachable_patterns)]
        other => ("error", other.to_string()),
    }
}

fn show(koto: &mut Koto, name: &str) -> J {
    match koto.exports().get(name) {
        Some(v) => match koto.value_to_string(v) {
            Ok(s) => J::String(s),
            Err(e) => J::String(format!("<display error {e}>")),
        },
        None => J::Null,
    }
}

pub fn session_job(job: &J) -> J {
    let id = job.get("id").cloned().unwrap_or(J::Null);
    let job2 = job.clone();
    let r = catch_unwind(AssertUnwindSafe(move || {
        let cap = Capture::default();
        let mut settings = KotoSettings::default()
            .with_stdout(cap.clone())
            .with_stderr(cap.clone());
        if let Some(ms) = job2.get("limit_ms").and_then(|v| v.as_u64()) {
            settings = settings.with_execution_limit(Duration::from_millis(ms));
        }
        settings.run_tests = job2.get("run_tests").and_then(|v| v.as_bool()).unwrap_or(true);
        settings.vm_settings.run_import_tests =
            job2.get("run_import_tests").and_then(|v| v.as_bool()).unwrap_or(true);
        let mut koto = Koto::with_settings(settings);
        let mut steps = Vec::new();
        let empty = Vec::new();
        for op in job2.get("ops").and_then(|v| v.as_array()).unwrap_or(&empty) {
            let head = job2.get("hook_head").and_then(|v| v.as_u64()).unwrap_or(4000) as usize;
            let tail = job2.get("hook_tail").and_then(|v| v.as_u64()).unwrap_or(2000) as usize;
            koto_runtime::verif::start_with_limits(head, tail);
            let t0 = Instant::now();
            let kind = op.get("op").and_then(|v| v.as_str()).unwrap_or("");
            let result: Result<KValue, koto::Error> = match kind {
                "run" => {
                    let src = op.get("src").and_then(|v| v.as_str()).unwrap_or("");
                    match op.get("path").and_then(|v| v.as_str()) {
                        Some(path) => koto.compile_and_run(CompileArgs::new(src).script_path(path)),
                        None => koto.compile_and_run(src),
                    }
                }
                "call" => {
                    let name = op.get("name").and_then(|v| v.as_str()).unwrap_or("");
                    let args: Vec<KValue> = op
                        .get("args")
                        .and_then(|v| v.as_array())
                        .map(|a| a.iter().map(|x| KValue::from(x.as_i64().unwrap_or(0))).collect())
                        .unwrap_or_default();
                    koto.call_exported_function(name, &args[..])
                }
                "call_value" => {
                    // call an exported value (possibly not callable) through call_function
                    let name = op.get("name").and_then(|v| v.as_str()).unwrap_or("");
                    let args: Vec<KValue> = op
                        .get("args")
                        .and_then(|v| v.as_array())
                        .map(|a| a.iter().map(|x| KValue::from(x.as_i64().unwrap_or(0))).collect())
                        .unwrap_or_default();
                    match koto.exports().get(name) {
                        Some(f) => koto.call_function(f, &args[..]),
                        None => Err(koto::Error::MissingFunction(name.into())),
                    }
                }
                "clear_cache" => {
                    // forget the compiled and the run modules: the next import loads from disk again
                    koto.clear_module_cache();
                    Ok(KValue::Null)
                }
                "write_file" => {
                    // (re)write a module file of the scenario between two operations
                    let path = op.get("path").and_then(|v| v.as_str()).unwrap_or("");
                    let src = op.get("src").and_then(|v| v.as_str()).unwrap_or("");
                    match std::fs::write(path, src) {
                        Ok(()) => Ok(KValue::Null),
                        Err(e) => Err(koto::Error::StringError(format!("write_file: {e}"))),
                    }
                }
                "display" => {
                    let name = op.get("name").and_then(|v| v.as_str()).unwrap_or("");
                    match koto.exports().get(name) {
                        Some(v) => koto.value_to_string(v).map(|s| KValue::Str(s.into())),
                        None => Err(koto::Error::MissingFunction(name.into())),
                    }
                }
                _ => Err(koto::Error::StringError("unknown op".into())),
            };
            let events = crate::run::events_json(koto_runtime::verif::take_with_gap());
            let mut step = match result {
                Ok(v) => {
                    let s = koto.value_to_string(v).unwrap_or_else(|e| format!("<display error {e}>"));
                    json!({"status": "ok", "value": s})
                }
                Err(e) => {
                    let (cls, msg) = classify(&e);
                    json!({"status": "err", "err_class": cls, "err_msg": msg,
                           "indentation_error": e.is_indentation_error()})
                }
            };
            step["wall_ms"] = json!(t0.elapsed().as_millis() as u64);
            step["events"] = events;
            step["stdout"] = J::String(cap.take());
            let (d, r, b, q, t) = koto.verif_vm().verif_state();
            step["state"] = json!({"vm": koto.verif_vm().verif_id(), "d": d, "r": r, "b": b, "q": q, "t": t});
            if op.get("dump_exports").and_then(|v| v.as_bool()).unwrap_or(false) {
                let names: Vec<String> = koto
                    .exports()
                    .data()
                    .keys()
                    .map(|k| match k.value() {
                        KValue::Str(s) => s.to_string(),
                        _ => "?".to_string(),
                    })
                    .collect();
                let mut m = serde_json::Map::new();
                for n in names {
                    let v = show(&mut koto, &n);
                    m.insert(n, v);
                }
                step["exports"] = J::Object(m);
            }
            step["x"] = show(&mut koto, "x");
            step["lst"] = show(&mut koto, "lst");
            steps.push(step);
        }
        json!({"status": "done", "steps": steps})
    }));
    let mut out = match r {
        Ok(o) => o,
        Err(_) => json!({"status": "panic", "err_msg": take_panic().unwrap_or_default()}),
    };
    out["id"] = id;
    out
}
