//! stdout capture for the runtime under test and panic bookkeeping.

use koto_runtime::{KString, KotoFile, KotoRead, KotoWrite, PtrMut, Result, make_ptr_mut};
use std::cell::RefCell;

thread_local! {
    pub static LAST_PANIC: RefCell<Option<String>> = const { RefCell::new(None) };
}

pub fn take_panic() -> Option<String> {
    LAST_PANIC.with(|p| p.borrow_mut().take())
}

#[derive(Clone, Debug)]
pub struct Capture {
    out: PtrMut<String>,
}

impl Default for Capture {
    fn default() -> Self {
        Self {
            out: make_ptr_mut!(String::new()),
        }
    }
}

impl Capture {
    pub fn text(&self) -> String {
        self.out.borrow().clone()
    }
    pub fn take(&self) -> String {
        std::mem::take(&mut *self.out.borrow_mut())
    }
}

impl KotoFile for Capture {
    fn id(&self) -> KString {
        "_kv_capture_".into()
    }
}

impl KotoRead for Capture {}

impl KotoWrite for Capture {
    fn write(&self, bytes: &[u8]) -> Result<()> {
        match std::str::from_utf8(bytes) {
            Ok(s) => {
                self.out.borrow_mut().push_str(s);
                Ok(())
            }
            Err(e) => Err(e.to_string().into()),
        }
    }

    fn write_line(&self, output: &str) -> Result<()> {
        let mut o = self.out.borrow_mut();
        o.push_str(output);
        o.push('\n');
        Ok(())
    }

    fn flush(&self) -> Result<()> {
        Ok(())
    }
}
