//! `kv lex`: the token stream of the public koto_lexer::Lexer for one input, with facts computed from the
//! TEXT of each token (independent of the lexer's own bookkeeping) for spec/Lexer.tla.
//!
//! job:    {id, src}
//! result: {id, status, len, toks: [{k, s, e, sl, sc, el, ec, ind, nl, tail, cb, lead}], capped}
//!   k kind, s/e byte range, sl/sc/el/ec span, ind reported indent, nl newlines in the token's text,
//!   tail characters after the last newline in the text (all characters if none), cb starts and ends on a
//!   char boundary, lead leading whitespace characters of the line the token starts on.

use crate::capture::take_panic;
use koto_lexer::Lexer;
use serde_json::{Value as J, json};
use std::panic::{AssertUnwindSafe, catch_unwind};

pub fn lex_job(job: &J) -> J {
    let id = job.get("id").cloned().unwrap_or(J::Null);
    let src = job.get("src").and_then(|v| v.as_str()).unwrap_or("").to_string();
    let r = catch_unwind(AssertUnwindSafe(move || {
        let cap = src.len() * 4 + 16;
        let mut toks = Vec::new();
        let mut capped = false;
        for t in Lexer::new(&src) {
            let (s, e) = (t.source_bytes.start, t.source_bytes.end);
            let cb = src.is_char_boundary(s.min(src.len())) && src.is_char_boundary(e.min(src.len())) && s <= e && e <= src.len();
            let (nl, tail, tailw) = if cb {
                let text = &src[s..e];
                let nl = text.matches('\n').count();
                let rest = match text.rfind('\n') {
                    Some(i) => &text[i + 1..],
                    None => text,
                };
                (nl, rest.chars().count(), unicode_width::UnicodeWidthStr::width(rest))
            } else {
                (0, 0, 0)
            };
            // leading whitespace of the line on which the token starts
            let lead = if s <= src.len() && src.is_char_boundary(s) {
                let line_start = src[..s].rfind('\n').map(|i| i + 1).unwrap_or(0);
                src[line_start..].chars().take_while(|c| *c == ' ' || *c == '\t').count()
            } else {
                0
            };
            toks.push(json!({"k": format!("{:?}", t.token), "s": s, "e": e, "sl": t.span.start.line, "sc": t.span.start.column,
                             "el": t.span.end.line, "ec": t.span.end.column, "ind": t.indent, "nl": nl, "tail": tail, "tailw": tailw,
                             "cb": cb, "lead": lead}));
            if toks.len() > cap {
                capped = true;
                break;
            }
        }
        json!({"status": "ok", "len": src.len(), "toks": toks, "capped": capped})
    }));
    let mut out = match r {
        Ok(o) => o,
        Err(_) => json!({"status": "panic", "err_msg": take_panic().unwrap_or_default()}),
    };
    out["id"] = id;
    out
}
