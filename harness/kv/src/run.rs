//! `kv run`: compile and run one script per job on a fresh runtime, report the observable outcome.
//!
//! job:    {id, src, type_checks?, export_top?, limit_ms?, run_tests?, path?, dump_exports?}
//! result: {id, status: ok|compile_error|runtime_error|panic, value, vtype, stdout,
//!          err_class, err_msg, err_lines, indentation_error, exports?, wall_ms}

use crate::capture::{Capture, take_panic};
use koto_bytecode::CompilerSettings;
use koto_runtime::{ErrorKind, KValue, KotoVm, KotoVmSettings, MetaKey, prelude::*};
use serde_json::{Value as J, json};
use std::panic::{AssertUnwindSafe, catch_unwind};
use std::time::{Duration, Instant};

pub fn make_vm(job: &J) -> (KotoVm, Capture) {
    let cap = Capture::default();
    let limit = job
        .get("limit_ms")
        .and_then(|v| v.as_u64())
        .map(Duration::from_millis);
    let vm = KotoVm::with_settings(KotoVmSettings {
        stdout: make_ptr!(cap.clone()),
        stderr: make_ptr!(cap.clone()),
        execution_limit: limit,
        run_import_tests: job
            .get("run_import_tests")
            .and_then(|v| v.as_bool())
            .unwrap_or(true),
        ..Default::default()
    });
    // C13: an iterator source constructed on the Rust side (KIterator::with_bytes), as hosts and os.command do
    if let Some(bytes) = job.get("bytes").and_then(|v| v.as_array()) {
        let data: Vec<u8> = bytes.iter().filter_map(|b| b.as_u64().map(|b| b as u8)).collect();
        let data: koto_runtime::Ptr<[u8]> = data.into();
        vm.prelude().add_fn("byte_source", move |_| {
            Ok(koto_runtime::KIterator::with_bytes(data.clone())?.into())
        });
    }
    (vm, cap)
}

pub fn error_class(e: &koto_runtime::Error) -> &'static str {
    match &e.error {
        ErrorKind::KotoError { .. } => "thrown",
        ErrorKind::Timeout(_) => "timeout",
        ErrorKind::CompileError(_) => "compile",
        ErrorKind::EmptyCallStack
        | ErrorKind::MissingSequenceBuilder
        | ErrorKind::MissingStringBuilder
        | ErrorKind::UnexpectedError => "internal",
        _ => "runtime",
    }
}

/// Lines (0-based start line) of every frame of the error's trace, innermost first.
pub fn error_lines(e: &koto_runtime::Error) -> Vec<J> {
    e.trace
        .iter()
        .map(|f| match f.chunk.debug_info.get_source_span(f.instruction) {
            Some(span) => json!(span.start.line),
            None => J::Null,
        })
        .collect()
}

pub fn display(vm: &mut KotoVm, v: &KValue) -> String {
    match vm.value_to_string(v) {
        Ok(s) => s,
        Err(e) => format!("<display error: {}>", e.error),
    }
}

pub fn run_script(vm: &mut KotoVm, job: &J, src: &str) -> J {
    let settings = CompilerSettings {
        enable_type_checks: job
            .get("type_checks")
            .and_then(|v| v.as_bool())
            .unwrap_or(true),
        export_top_level_ids: job
            .get("export_top")
            .and_then(|v| v.as_bool())
            .unwrap_or(false),
        ..Default::default()
    };
    let path: Option<KString> = job
        .get("path")
        .and_then(|v| v.as_str())
        .map(|s| KString::from(s));
    let run_tests = job
        .get("run_tests")
        .and_then(|v| v.as_bool())
        .unwrap_or(false);

    let compiled = vm.loader().borrow_mut().compile_script(src, path, settings);
    let chunk = match compiled {
        Ok(c) => c,
        Err(e) => {
            let span = e.source.as_ref().map(|s| s.span);
            return json!({
                "status": "compile_error",
                "err_msg": e.to_string(),
                "indentation_error": e.is_indentation_error(),
                "err_span": span.map(|s| json!([s.start.line, s.start.column, s.end.line, s.end.column])),
            });
        }
    };

    let mut result = vm.run(chunk);
    if result.is_ok() && run_tests {
        let exports = vm.exports().clone();
        if let Err(e) = vm.run_tests(exports) {
            result = Err(e);
        }
    }
    if result.is_ok() {
        if let Some(main) = vm.exports().get_meta_value(&MetaKey::Main) {
            result = vm.call_function(main, &[]);
        }
    }
    match result {
        Ok(v) => {
            let vtype = v.type_as_string().to_string();
            let value = display(vm, &v);
            json!({"status": "ok", "value": value, "vtype": vtype})
        }
        Err(e) => {
            json!({
                "status": "runtime_error",
                "err_class": error_class(&e),
                "err_msg": e.to_string(),
                "err_head": e.error.to_string(),
                "err_lines": error_lines(&e),
            })
        }
    }
}

pub fn dump_exports(vm: &mut KotoVm) -> J {
    let raw: Vec<(KValue, KValue)> = {
        let exports = vm.exports().clone();
        let data = exports.data();
        data.iter()
            .map(|(k, v)| (k.value().clone(), v.clone()))
            .collect()
    };
    let mut out = serde_json::Map::new();
    for (k, v) in raw {
        let ks = display(vm, &k);
        let s = display(vm, &v);
        out.insert(ks, J::String(s));
    }
    J::Object(out)
}

/// Events recorded by the verification hooks, as compact JSON records.
pub fn events_json(recorded: (Vec<koto_runtime::verif::Event>, usize, Vec<koto_runtime::verif::Event>)) -> J {
    let (head, dropped, tail) = recorded;
    let conv = |e: koto_runtime::verif::Event| {
        json!({"e": e.name, "vm": e.vm, "d": e.depth, "r": e.regs, "b": e.base, "q": e.seqb,
               "t": e.strb, "c": e.catches, "a": e.a, "x": e.b, "s": e.s})
    };
    let mut out: Vec<J> = head.into_iter().map(conv).collect();
    if dropped > 0 || !tail.is_empty() {
        out.push(json!({"e": "Gap", "vm": 0, "d": 0, "r": 0, "b": 0, "q": 0, "t": 0, "c": 0,
                        "a": dropped as i64, "x": 0, "s": ""}));
        out.extend(tail.into_iter().map(conv));
    }
    J::Array(out)
}

pub fn run_job(job: &J) -> J {
    let id = job.get("id").cloned().unwrap_or(J::Null);
    let src = job.get("src").and_then(|v| v.as_str()).unwrap_or("").to_string();
    let t0 = Instant::now();
    let job2 = job.clone();
    let hooks = job.get("hooks").and_then(|v| v.as_bool()).unwrap_or(false);
    if hooks {
        koto_runtime::verif::start_with_limits(4000, 2000);
    }
    let r = catch_unwind(AssertUnwindSafe(move || {
        let (mut vm, cap) = make_vm(&job2);
        let mut out = run_script(&mut vm, &job2, &src);
        if job2.get("dump_exports").and_then(|v| v.as_bool()).unwrap_or(false) {
            out["exports"] = dump_exports(&mut vm);
        }
        out["stdout"] = J::String(cap.text());
        let (depth, regs, base, seqb, strb) = vm.verif_state();
        out["final_state"] = json!({"vm": vm.verif_id(), "d": depth, "r": regs, "b": base, "q": seqb, "t": strb});
        out
    }));
    let events = if hooks { Some(koto_runtime::verif::take_with_gap()) } else { None };
    let mut out = match r {
        Ok(o) => o,
        Err(_) => json!({"status": "panic", "err_msg": take_panic().unwrap_or_default()}),
    };
    out["id"] = id;
    out["wall_ms"] = json!(t0.elapsed().as_millis() as u64);
    if let Some(events) = events {
        out["events"] = events_json(events);
    }
    out
}
