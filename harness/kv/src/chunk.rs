//! `kv chunk`: compile a script and decode every instruction of the chunk with the public
//! InstructionReader into records for spec/ChunkCfg.tla.
//!
//! job:    {id, src, type_checks?, export_top?}
//! result: {id, status, nbytes, hash, ins: [{ip, nx, op, rs: [registers], tg: jump target ip or -1,
//!          cl: class, n: class specific number, ks: [[constant index, kind]]}], nconst}
//! classes: "plain" | "jump" | "cjump" (conditional: falls through or jumps) | "ret" | "throw" |
//!          "frame" (n = register count) | "fn" (n = body size, tg = ip after the body) |
//!          "seqstart" "seqend" "seqpush" "strstart" "strend" "strpush" | "trystart" (tg = catch ip) | "tryend" | "yield" | "error"

use crate::capture::take_panic;
use koto_bytecode::{CompilerSettings, Instruction, InstructionReader, ModuleLoader};
use koto_parser::Constant;
use serde_json::{Value as J, json};
use std::panic::{AssertUnwindSafe, catch_unwind};

struct Rec {
    op: &'static str,
    rs: Vec<i64>,
    tg: i64,
    cl: &'static str,
    n: i64,
    ks: Vec<(i64, &'static str)>,
}

fn rec(op: &'static str, rs: &[u8]) -> Rec {
    Rec { op, rs: rs.iter().map(|r| *r as i64).collect(), tg: -1, cl: "plain", n: 0, ks: vec![] }
}

fn range(start: u8, count: usize) -> Vec<u8> {
    (0..count).map(|i| start.saturating_add(i as u8)).collect()
}

fn decode(i: &Instruction, next_ip: usize) -> Rec {
    use Instruction::*;
    let fwd = |off: u16| (next_ip + off as usize) as i64;
    let back = |off: u16| next_ip as i64 - off as i64;
    let k = |c: koto_parser::ConstantIndex| u32::from(c) as i64;
    match i {
        Error { .. } => Rec { cl: "error", ..rec("Error", &[]) },
        NewFrame { register_count } => Rec { cl: "frame", n: *register_count as i64, ..rec("NewFrame", &[]) },
        Copy { target, source } => rec("Copy", &[*target, *source]),
        SetNull { register } => rec("SetNull", &[*register]),
        SetBool { register, .. } => rec("SetBool", &[*register]),
        SetNumber { register, .. } => rec("SetNumber", &[*register]),
        LoadFloat { register, constant } => Rec { ks: vec![(k(*constant), "f64")], ..rec("LoadFloat", &[*register]) },
        LoadInt { register, constant } => Rec { ks: vec![(k(*constant), "i64")], ..rec("LoadInt", &[*register]) },
        LoadString { register, constant } => Rec { ks: vec![(k(*constant), "str")], ..rec("LoadString", &[*register]) },
        LoadNonLocal { register, constant } => Rec { ks: vec![(k(*constant), "str")], ..rec("LoadNonLocal", &[*register]) },
        ExportValue { key, value } => rec("ExportValue", &[*key, *value]),
        ExportEntry { entry } => rec("ExportEntry", &[*entry]),
        Import { register } => rec("Import", &[*register]),
        ImportAll { register } => rec("ImportAll", &[*register]),
        MakeTempTuple { register, start, count } => {
            let mut rs = vec![*register];
            rs.extend(range(*start, *count as usize));
            rec("MakeTempTuple", &rs)
        }
        TempTupleToTuple { register, source } => rec("TempTupleToTuple", &[*register, *source]),
        MakeMap { register, .. } => rec("MakeMap", &[*register]),
        SequenceStart { .. } => Rec { cl: "seqstart", ..rec("SequenceStart", &[]) },
        SequencePush { value } => Rec { cl: "seqpush", ..rec("SequencePush", &[*value]) },
        SequencePushN { start, count } => Rec { cl: "seqpush", ..rec("SequencePushN", &range(*start, *count as usize)) },
        SequenceToList { register } => Rec { cl: "seqend", ..rec("SequenceToList", &[*register]) },
        SequenceToTuple { register } => Rec { cl: "seqend", ..rec("SequenceToTuple", &[*register]) },
        Range { register, start, end } => rec("Range", &[*register, *start, *end]),
        RangeInclusive { register, start, end } => rec("RangeInclusive", &[*register, *start, *end]),
        RangeTo { register, end } => rec("RangeTo", &[*register, *end]),
        RangeToInclusive { register, end } => rec("RangeToInclusive", &[*register, *end]),
        RangeFrom { register, start } => rec("RangeFrom", &[*register, *start]),
        RangeFull { register } => rec("RangeFull", &[*register]),
        MakeIterator { register, iterable } => rec("MakeIterator", &[*register, *iterable]),
        Function { register, size, .. } => {
            Rec { cl: "fn", n: *size as i64, tg: fwd(*size), ..rec("Function", &[*register]) }
        }
        Capture { function, source, .. } => rec("Capture", &[*function, *source]),
        Negate { register, value } => rec("Negate", &[*register, *value]),
        Not { register, value } => rec("Not", &[*register, *value]),
        Add { register, lhs, rhs } => rec("Add", &[*register, *lhs, *rhs]),
        Subtract { register, lhs, rhs } => rec("Subtract", &[*register, *lhs, *rhs]),
        Multiply { register, lhs, rhs } => rec("Multiply", &[*register, *lhs, *rhs]),
        Divide { register, lhs, rhs } => rec("Divide", &[*register, *lhs, *rhs]),
        Remainder { register, lhs, rhs } => rec("Remainder", &[*register, *lhs, *rhs]),
        Power { register, lhs, rhs } => rec("Power", &[*register, *lhs, *rhs]),
        AddAssign { lhs, rhs } => rec("AddAssign", &[*lhs, *rhs]),
        SubtractAssign { lhs, rhs } => rec("SubtractAssign", &[*lhs, *rhs]),
        MultiplyAssign { lhs, rhs } => rec("MultiplyAssign", &[*lhs, *rhs]),
        DivideAssign { lhs, rhs } => rec("DivideAssign", &[*lhs, *rhs]),
        RemainderAssign { lhs, rhs } => rec("RemainderAssign", &[*lhs, *rhs]),
        PowerAssign { lhs, rhs } => rec("PowerAssign", &[*lhs, *rhs]),
        Less { register, lhs, rhs } => rec("Less", &[*register, *lhs, *rhs]),
        LessOrEqual { register, lhs, rhs } => rec("LessOrEqual", &[*register, *lhs, *rhs]),
        Greater { register, lhs, rhs } => rec("Greater", &[*register, *lhs, *rhs]),
        GreaterOrEqual { register, lhs, rhs } => rec("GreaterOrEqual", &[*register, *lhs, *rhs]),
        Equal { register, lhs, rhs } => rec("Equal", &[*register, *lhs, *rhs]),
        NotEqual { register, lhs, rhs } => rec("NotEqual", &[*register, *lhs, *rhs]),
        Jump { offset } => Rec { cl: "jump", tg: fwd(*offset), ..rec("Jump", &[]) },
        JumpBack { offset } => Rec { cl: "jump", tg: back(*offset), ..rec("JumpBack", &[]) },
        JumpIfTrue { register, offset } => Rec { cl: "cjump", tg: fwd(*offset), ..rec("JumpIfTrue", &[*register]) },
        JumpIfFalse { register, offset } => Rec { cl: "cjump", tg: fwd(*offset), ..rec("JumpIfFalse", &[*register]) },
        JumpIfNull { register, offset } => Rec { cl: "cjump", tg: fwd(*offset), ..rec("JumpIfNull", &[*register]) },
        Call { result, function, frame_base, arg_count, packed_arg_count } => {
            let mut rs = vec![*result, *function];
            rs.extend(range(*frame_base, 1 + *arg_count as usize + *packed_arg_count as usize));
            rec("Call", &rs)
        }
        CallInstance { result, function, instance, frame_base, arg_count, packed_arg_count } => {
            let mut rs = vec![*result, *function, *instance];
            rs.extend(range(*frame_base, 1 + *arg_count as usize + *packed_arg_count as usize));
            rec("CallInstance", &rs)
        }
        Return { register } => Rec { cl: "ret", ..rec("Return", &[*register]) },
        Yield { register } => Rec { cl: "yield", ..rec("Yield", &[*register]) },
        Throw { register } => Rec { cl: "throw", ..rec("Throw", &[*register]) },
        Size { register, value } => rec("Size", &[*register, *value]),
        IterNext { result, iterator, jump_offset, .. } => {
            let mut rs = vec![*iterator];
            if let Some(r) = result {
                rs.push(*r);
            }
            Rec { cl: "cjump", tg: fwd(*jump_offset), ..rec("IterNext", &rs) }
        }
        TempIndex { register, value, .. } => rec("TempIndex", &[*register, *value]),
        SliceFrom { register, value, .. } => rec("SliceFrom", &[*register, *value]),
        SliceTo { register, value, .. } => rec("SliceTo", &[*register, *value]),
        Index { register, value, index } => rec("Index", &[*register, *value, *index]),
        IndexMut { register, index, value } => rec("IndexMut", &[*register, *index, *value]),
        MetaInsert { register, value, .. } => rec("MetaInsert", &[*register, *value]),
        MetaInsertNamed { register, value, name, .. } => rec("MetaInsertNamed", &[*register, *value, *name]),
        MetaExport { value, .. } => rec("MetaExport", &[*value]),
        MetaExportNamed { name, value, .. } => rec("MetaExportNamed", &[*name, *value]),
        Access { register, value, key } => Rec { ks: vec![(k(*key), "str")], ..rec("Access", &[*register, *value]) },
        TryAccess { register, value, key, jump_offset } => Rec {
            ks: vec![(k(*key), "str")],
            cl: "cjump",
            tg: fwd(*jump_offset),
            ..rec("TryAccess", &[*register, *value])
        },
        AccessString { register, value, key } => rec("AccessString", &[*register, *value, *key]),
        TryAccessString { register, value, key, jump_offset } => {
            Rec { cl: "cjump", tg: fwd(*jump_offset), ..rec("TryAccessString", &[*register, *value, *key]) }
        }
        AccessAssign { register, key, value } => rec("AccessAssign", &[*register, *key, *value]),
        TryStart { arg_register, catch_offset } => {
            Rec { cl: "trystart", tg: fwd(*catch_offset), ..rec("TryStart", &[*arg_register]) }
        }
        TryEnd => Rec { cl: "tryend", ..rec("TryEnd", &[]) },
        Debug { register, constant } => Rec { ks: vec![(k(*constant), "str")], ..rec("Debug", &[*register]) },
        CheckSizeEqual { register, .. } => rec("CheckSizeEqual", &[*register]),
        CheckSizeMin { register, .. } => rec("CheckSizeMin", &[*register]),
        AssertType { value, type_string, .. } => Rec { ks: vec![(k(*type_string), "str")], ..rec("AssertType", &[*value]) },
        CheckType { value, type_string, jump_offset, .. } => Rec {
            ks: vec![(k(*type_string), "str")],
            cl: "cjump",
            tg: fwd(*jump_offset),
            ..rec("CheckType", &[*value])
        },
        StringStart { .. } => Rec { cl: "strstart", ..rec("StringStart", &[]) },
        StringPush { value, .. } => Rec { cl: "strpush", ..rec("StringPush", &[*value]) },
        StringFinish { register } => Rec { cl: "strend", ..rec("StringFinish", &[*register]) },
    }
}

fn fnv(bytes: &[u8]) -> u64 {
    let mut h: u64 = 0xcbf29ce484222325;
    for b in bytes {
        h ^= *b as u64;
        h = h.wrapping_mul(0x100000001b3);
    }
    h
}

pub fn chunk_job(job: &J) -> J {
    let id = job.get("id").cloned().unwrap_or(J::Null);
    let src = job.get("src").and_then(|v| v.as_str()).unwrap_or("").to_string();
    let job2 = job.clone();
    let r = catch_unwind(AssertUnwindSafe(move || {
        let settings = CompilerSettings {
            enable_type_checks: job2.get("type_checks").and_then(|v| v.as_bool()).unwrap_or(true),
            export_top_level_ids: job2.get("export_top").and_then(|v| v.as_bool()).unwrap_or(false),
            ..Default::default()
        };
        let mut loader = ModuleLoader::default();
        let chunk = match loader.compile_script(&src, None, settings) {
            Ok(c) => c,
            Err(e) => {
                return json!({"status": "compile_error", "err_msg": e.to_string(),
                              "indentation_error": e.is_indentation_error()});
            }
        };
        // constants: kinds by index
        let mut kinds = Vec::new();
        let mut ci = 0;
        let mut chash: u64 = 0xcbf29ce484222325;
        while let Some(c) = chunk.constants.get(ci) {
            let (kind, text) = match c {
                Constant::F64(f) => ("f64", format!("{f:?}")),
                Constant::I64(i) => ("i64", format!("{i}")),
                Constant::Str(s) => ("str", s.to_string()),
            };
            kinds.push(J::String(kind.into()));
            chash ^= fnv(text.as_bytes()).wrapping_add(ci as u64);
            chash = chash.wrapping_mul(0x100000001b3);
            ci += 1;
        }
        let mut reader = InstructionReader::new(chunk.clone());
        let mut ins = Vec::new();
        loop {
            let ip = reader.ip;
            let Some(i) = reader.next() else { break };
            let r = decode(&i, reader.ip);
            ins.push(json!({"ip": ip, "nx": reader.ip, "op": r.op, "rs": r.rs, "tg": r.tg, "cl": r.cl, "n": r.n,
                            "ks": r.ks.iter().map(|(i, k)| json!([i, k])).collect::<Vec<_>>()}));
            if ins.len() > 200_000 {
                break;
            }
        }
        json!({"status": "ok", "nbytes": chunk.bytes.len(), "hash": format!("{:016x}", fnv(&chunk.bytes) ^ chash),
               "ins": ins, "ckinds": kinds, "end": reader.ip})
    }));
    let mut out = match r {
        Ok(o) => o,
        Err(_) => json!({"status": "panic", "err_msg": take_panic().unwrap_or_default()}),
    };
    out["id"] = id;
    out
}
