//! `kv compile`, `kv parse`, `kv format`: front-end commands (no execution).

use crate::capture::take_panic;
use koto_bytecode::CompilerSettings;
use koto_format::FormatOptions;
use koto_parser::{Constant, Parser};
use serde_json::{Value as J, json};
use std::panic::{AssertUnwindSafe, catch_unwind};

fn guard(id: J, f: impl FnOnce() -> J) -> J {
    let mut out = match catch_unwind(AssertUnwindSafe(f)) {
        Ok(o) => o,
        Err(_) => json!({"status": "panic", "err_msg": take_panic().unwrap_or_default()}),
    };
    out["id"] = id;
    out
}

/// job: {id, src}  ->  {status: ok|compile_error, indentation_error, err_span, err_msg}
pub fn compile_job(job: &J) -> J {
    let id = job.get("id").cloned().unwrap_or(J::Null);
    let src = job.get("src").and_then(|v| v.as_str()).unwrap_or("").to_string();
    guard(id, move || {
        let mut loader = koto_bytecode::ModuleLoader::default();
        match loader.compile_script(&src, None, CompilerSettings::default()) {
            Ok(chunk) => json!({"status": "ok", "bytes": chunk.bytes.len()}),
            Err(e) => {
                let span = e.source.as_ref().map(|s| s.span);
                json!({
                    "status": "compile_error",
                    "indentation_error": e.is_indentation_error(),
                    "err_msg": e.to_string(),
                    "err_span": span.map(|s| json!([s.start.line, s.start.column, s.end.line, s.end.column])),
                })
            }
        }
    })
}

/// Canonical syntax tree: every node's Debug text with child indices replaced, recursively, by the
/// child's own canonical text and constant indices by the constant's value. Positions and the
/// numbering of nodes therefore do not appear.
pub fn canonical_ast(src: &str) -> Result<String, String> {
    canonical_ast_with(src, false)
}

/// `cosmetic`: additionally see through grouping parentheses (`Nested`) and blocks holding a single
/// expression (`then x` against an indented `x`), which change layout but not the program.
pub fn canonical_ast_with(src: &str, cosmetic: bool) -> Result<String, String> {
    let ast = Parser::parse(src).map_err(|e| e.to_string())?;
    let nodes: Vec<String> = ast.nodes().iter().map(|n| format!("{:?}", n.node)).collect();
    let through: Vec<Option<usize>> = ast
        .nodes()
        .iter()
        .map(|n| match &n.node {
            koto_parser::Node::Nested(inner) if cosmetic => Some(u32::from(*inner) as usize),
            koto_parser::Node::Block(xs) if cosmetic && xs.len() == 1 => Some(u32::from(xs[0]) as usize),
            _ => None,
        })
        .collect();
    let consts = ast.constants();
    fn expand(
        i: usize,
        nodes: &[String],
        through: &[Option<usize>],
        consts: &koto_parser::ConstantPool,
        depth: usize,
        out: &mut String,
    ) {
        if depth > 400 {
            out.push_str("<deep>");
            return;
        }
        if let Some(inner) = through[i] {
            return expand(inner, nodes, through, consts, depth + 1, out);
        }
        let s = &nodes[i];
        let bytes = s.as_bytes();
        let mut k = 0;
        while k < bytes.len() {
            if s[k..].starts_with("AstIndex(") || s[k..].starts_with("ConstantIndex(") {
                let is_ast = s[k..].starts_with("AstIndex(");
                let open = k + if is_ast { 9 } else { 14 };
                let close = open + s[open..].find(')').unwrap();
                let n: usize = s[open..close].trim().parse().unwrap();
                if is_ast {
                    out.push('<');
                    expand(n, nodes, through, consts, depth + 1, out);
                    out.push('>');
                } else {
                    match consts.get(n) {
                        Some(Constant::F64(f)) => out.push_str(&format!("#f{f:?}")),
                        Some(Constant::I64(v)) => out.push_str(&format!("#i{v}")),
                        Some(Constant::Str(v)) => out.push_str(&format!("#s{v:?}")),
                        None => out.push_str("#?"),
                    }
                }
                k = close + 1;
            } else {
                let ch = s[k..].chars().next().unwrap();
                out.push(ch);
                k += ch.len_utf8();
            }
        }
    }
    let mut out = String::new();
    if let Some(entry) = ast.entry_point() {
        expand(u32::from(entry) as usize, &nodes, &through, consts, 0, &mut out);
    }
    Ok(out)
}

/// job: {id, src} -> {status, canon}
pub fn parse_job(job: &J) -> J {
    let id = job.get("id").cloned().unwrap_or(J::Null);
    let src = job.get("src").and_then(|v| v.as_str()).unwrap_or("").to_string();
    guard(id, move || match canonical_ast(&src) {
        Ok(c) => json!({"status": "ok", "canon": c}),
        Err(e) => json!({"status": "parse_error", "err_msg": e}),
    })
}

fn options(job: &J) -> FormatOptions {
    let d = FormatOptions::default();
    FormatOptions {
        always_indent_arms: job.get("always_indent_arms").and_then(|v| v.as_bool()).unwrap_or(d.always_indent_arms),
        indent_width: job.get("indent_width").and_then(|v| v.as_u64()).map(|v| v as u8).unwrap_or(d.indent_width),
        line_length: job.get("line_length").and_then(|v| v.as_u64()).map(|v| v as u8).unwrap_or(d.line_length),
        chain_break_threshold: job
            .get("chain_break_threshold")
            .and_then(|v| v.as_u64())
            .map(|v| v as u8)
            .unwrap_or(d.chain_break_threshold),
    }
}

/// Unusual shapes of the syntax tree that the formatter is known to mishandle (known finding WS):
/// the driver keeps inputs with such shapes out of the domain it decides.
fn odd_shapes(src: &str) -> Vec<&'static str> {
    use koto_parser::{ChainNode, Node};
    let mut out = Vec::new();
    let Ok(ast) = Parser::parse(src) else { return out };
    let is_range = |i: koto_parser::AstIndex| {
        matches!(
            ast.node(i).node,
            Node::Range { .. } | Node::RangeFrom { .. } | Node::RangeTo { .. } | Node::RangeFull
        )
    };
    let bare_call = |i: koto_parser::AstIndex| {
        // a chain that contains a call without parentheses
        let mut cur = Some(i);
        while let Some(c) = cur {
            match &ast.node(c).node {
                Node::Chain((ChainNode::Call { with_parens: false, .. }, _)) => return true,
                Node::Chain((_, next)) => cur = *next,
                _ => return false,
            }
        }
        false
    };
    for n in ast.nodes() {
        match &n.node {
            Node::Range { start, end, .. } if is_range(*start) || is_range(*end) => out.push("nested-range"),
            Node::RangeFrom { start } if is_range(*start) => out.push("nested-range"),
            Node::RangeTo { end, .. } if is_range(*end) => out.push("nested-range"),
            Node::Tuple { elements, parentheses: false } if elements.iter().any(|e| bare_call(*e)) => {
                out.push("bare-tuple-of-bare-call")
            }
            // `x = while c ...` followed by a dedented `< 5`: a block expression as the left operand of an operator
            Node::BinaryOp { lhs, .. }
                if matches!(
                    ast.node(*lhs).node,
                    Node::While { .. }
                        | Node::Until { .. }
                        | Node::Loop { .. }
                        | Node::For(_)
                        | Node::Match { .. }
                        | Node::Switch(_)
                        | Node::Try(_)
                        | Node::If(_)
                        | Node::Function(_)
                ) =>
            {
                out.push("block-operand")
            }
            // `f key: value` + indented entries: a map in block form as the argument of a call without parentheses
            Node::Chain((ChainNode::Call { args, with_parens: false }, _))
                if args.iter().any(|a| matches!(ast.node(*a).node, Node::Map { braces: false, .. })) =>
            {
                out.push("bare-call-with-block-map")
            }
            _ => {}
        }
    }
    // a comma that is not followed by an expression: `f a, , b`, `f a, - b`, `f a, and b`
    {
        use koto_lexer::Token as T;
        let toks: Vec<T> = koto_lexer::Lexer::new(src).map(|t| t.token).collect();
        for (i, t) in toks.iter().enumerate() {
            if *t != T::Comma {
                continue;
            }
            let mut k = i + 1;
            while k < toks.len() && toks[k].is_whitespace_including_newline() {
                k += 1;
            }
            let odd = match toks.get(k) {
                Some(
                    T::Comma | T::And | T::Or | T::Add | T::Multiply | T::Divide | T::Remainder | T::Power | T::Equal
                    | T::NotEqual | T::Greater | T::GreaterOrEqual | T::Less | T::LessOrEqual | T::Arrow | T::Assign
                    | T::AddAssign | T::SubtractAssign | T::MultiplyAssign | T::DivideAssign | T::RemainderAssign
                    | T::PowerAssign | T::Range | T::RangeInclusive | T::Dot | T::As | T::In | T::Then | T::Else,
                ) => true,
                Some(T::Subtract) => matches!(toks.get(k + 1), Some(T::Whitespace | T::NewLine)),
                _ => false,
            };
            if odd {
                out.push("comma-without-expression");
            }
        }
    }
    out.sort();
    out.dedup();
    out
}

/// job: {id, src, options...} -> {status, text, text2 (format of the output), canon_in, canon_out}
pub fn format_job(job: &J) -> J {
    let id = job.get("id").cloned().unwrap_or(J::Null);
    let src = job.get("src").and_then(|v| v.as_str()).unwrap_or("").to_string();
    let job = job.clone();
    guard(id, move || {
        let canon_in = match canonical_ast_with(&src, true) {
            Ok(c) => c,
            Err(e) => return json!({"status": "parse_error", "err_msg": e}),
        };
        let text = match koto_format::format(&src, options(&job)) {
            Ok(t) => t,
            Err(e) => return json!({"status": "format_error", "err_msg": e.to_string()}),
        };
        let canon_out = canonical_ast_with(&text, true);
        let text2 = koto_format::format(&text, options(&job)).map_err(|e| e.to_string());
        let max_width = text.lines().map(unicode_width::UnicodeWidthStr::width).max().unwrap_or(0);
        json!({
            "status": "ok",
            "max_width": max_width,
            "odd_shapes": odd_shapes(&src),
            "text": text,
            "canon_in": canon_in,
            "canon_out": canon_out.clone().ok(),
            "canon_out_err": canon_out.err(),
            "text2": text2.clone().ok(),
            "text2_err": text2.err(),
        })
    })
}

/// job: {id, src, run?: bool, limit_ms?} -> {status: "ok", stages: {lex, parse, compile, format, format_narrow, run}}
/// Host safety (C06): every stage of the front end (and, when asked, execution and display) is run on the
/// text under its own catch_unwind; a stage's entry is "ok", "err" (a Result::Err was returned and rendered)
/// or "panic: <message>".
pub fn safety_job(job: &J) -> J {
    let id = job.get("id").cloned().unwrap_or(J::Null);
    let src = job.get("src").and_then(|v| v.as_str()).unwrap_or("").to_string();
    let run = job.get("run").and_then(|v| v.as_bool()).unwrap_or(false);
    let mut stages = serde_json::Map::new();
    let mut stage = |name: &str, f: &mut dyn FnMut() -> bool| {
        let r = catch_unwind(AssertUnwindSafe(|| f()));
        let v = match r {
            Ok(true) => "ok".to_string(),
            Ok(false) => "err".to_string(),
            Err(_) => format!("panic: {}", take_panic().unwrap_or_default()),
        };
        stages.insert(name.to_string(), J::String(v));
    };
    stage("lex", &mut || {
        let mut n = 0usize;
        for t in koto_lexer::Lexer::new(&src) {
            // the text of every token that is not an error token (C09: those lie on character boundaries)
            if t.token != koto_lexer::Token::Error {
                let _ = t.slice(&src);
            }
            n += 1;
            if n > 1_000_000 {
                break;
            }
        }
        true
    });
    stage("parse", &mut || match Parser::parse(&src) {
        Ok(_) => true,
        Err(e) => {
            let _ = e.to_string();
            let _ = format!("{e:?}");
            false
        }
    });
    stage("compile", &mut || {
        let mut koto = koto::Koto::default();
        match koto.compile(src.as_str()) {
            Ok(_) => true,
            Err(e) => {
                // the rendering a host shows to its user (source excerpt included)
                let _ = e.to_string();
                let _ = format!("{e:?}");
                false
            }
        }
    });
    stage("format", &mut || match koto_format::format(&src, FormatOptions::default()) {
        Ok(_) => true,
        Err(e) => {
            let _ = e.to_string();
            false
        }
    });
    stage("format_narrow", &mut || {
        let o = FormatOptions { line_length: 12, indent_width: 3, chain_break_threshold: 1, always_indent_arms: true };
        match koto_format::format(&src, o) {
            Ok(_) => true,
            Err(e) => {
                let _ = e.to_string();
                false
            }
        }
    });
    if run {
        let job2 = job.clone();
        stage("run", &mut || {
            let (mut vm, _cap) = crate::run::make_vm(&job2);
            let out = crate::run::run_script(&mut vm, &job2, &src);
            out.get("status").and_then(|s| s.as_str()) == Some("ok")
        });
    }
    let mut out = json!({"status": "ok", "stages": J::Object(stages)});
    out["id"] = id;
    out
}
