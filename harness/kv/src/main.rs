//! kv — conformance harness binding the TLA+ specifications under /verif/spec to the koto
//! implementation in /repo (path dependencies; rebuilt from the working tree by every check).
//!
//! Every sub-command reads NDJSON jobs from a file and writes one NDJSON result per job to stdout,
//! flushing after each line so that the python driver can tell which job killed the process when a
//! job aborts or hangs (the driver then records `abort`/`hang` for that job and restarts after it).

mod capture;
mod chunk;
mod lex;
mod run;
mod session;
mod syntax;
mod threads;

use std::io::{BufRead, Write};

fn main() {
    let args: Vec<String> = std::env::args().collect();
    if args.len() < 3 {
        eprintln!("usage: kv <command> <jobs.ndjson> [skip]");
        std::process::exit(2);
    }
    let cmd = args[1].as_str();
    let path = &args[2];
    let skip: usize = args.get(3).and_then(|s| s.parse().ok()).unwrap_or(0);

    // Panics in the code under test are data: keep the message, silence stderr.
    std::panic::set_hook(Box::new(|info| {
        let msg = info.to_string();
        capture::LAST_PANIC.with(|p| *p.borrow_mut() = Some(msg));
    }));

    let file = std::fs::File::open(path).unwrap_or_else(|e| {
        eprintln!("kv: cannot open {path}: {e}");
        std::process::exit(2);
    });
    let stdout = std::io::stdout();
    for (n, line) in std::io::BufReader::new(file).lines().enumerate() {
        let line = line.expect("read job line");
        if n < skip || line.trim().is_empty() {
            continue;
        }
        let job: serde_json::Value = match serde_json::from_str(&line) {
            Ok(j) => j,
            Err(e) => {
                eprintln!("kv: bad job line {n}: {e}");
                std::process::exit(2);
            }
        };
        // announce the job before running it, so an abort/hang is attributable
        {
            let mut out = stdout.lock();
            writeln!(out, "{{\"begin\":{n}}}").unwrap();
            out.flush().unwrap();
        }
        let result = match cmd {
            "run" => run::run_job(&job),
            "session" => session::session_job(&job),
            "chunk" => chunk::chunk_job(&job),
            "lex" => lex::lex_job(&job),
            "compile" => syntax::compile_job(&job),
            "parse" => syntax::parse_job(&job),
            "format" => syntax::format_job(&job),
            "safety" => syntax::safety_job(&job),
            "threads" => threads::threads_job(&job),
            other => {
                eprintln!("kv: unknown command {other}");
                std::process::exit(2);
            }
        };
        let mut out = stdout.lock();
        writeln!(out, "{}", serde_json::to_string(&result).unwrap()).unwrap();
        out.flush().unwrap();
        if result.get("exit_after").and_then(|v| v.as_bool()).unwrap_or(false) {
            // threads of the round are stuck and cannot be recovered: leave, the driver restarts after this job
            std::process::exit(0);
        }
    }
}
