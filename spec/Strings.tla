------------------------------ MODULE Strings ------------------------------
(***************************************************************************)
(* Koto strings (C15).  A string is a sequence of Unicode scalar values    *)
(* (code points); everything the guide and docs/core_lib/string.md define  *)
(* is defined here on that sequence, its UTF-8 bytes and its grapheme      *)
(* clusters:                                                               *)
(*   - UTF-8 encoding, byte length, byte offsets of code points            *)
(*   - indexing and slicing by byte offsets (error when a bound is inside  *)
(*     a code point)                                                       *)
(*   - grapheme clusters (UAX #29 restricted to the classes that occur in  *)
(*     the alphabet: CR, LF, Control, Extend, ZWJ, Extended_Pictographic)  *)
(*   - chars, char_indices, bytes, size, lines, split, replace, contains,  *)
(*     starts_with, ends_with, strip_prefix, strip_suffix, trim variants,  *)
(*     case mapping, repeat, to_number, format options, escape codes       *)
(* TLC enumerates every string over an alphabet up to a length bound and   *)
(* every argument in and just beyond bounds, checks the laws of the        *)
(* property on the definitions themselves, and prints one prediction per   *)
(* case; the driver (lib/check_c15.py) runs the cases on the real runtime. *)
(***************************************************************************)
EXTENDS Naturals, Integers, Sequences, FiniteSets, TLC, Json, IOUtils

(***************************************************************************)
(* UTF-8                                                                   *)
(***************************************************************************)
Utf8(c) ==
    IF c < 128 THEN <<c>>
    ELSE IF c < 2048 THEN <<192 + (c \div 64), 128 + (c % 64)>>
    ELSE IF c < 65536 THEN <<224 + (c \div 4096), 128 + ((c \div 64) % 64), 128 + (c % 64)>>
    ELSE <<240 + (c \div 262144), 128 + ((c \div 4096) % 64), 128 + ((c \div 64) % 64), 128 + (c % 64)>>

Utf8Len(c) == IF c < 128 THEN 1 ELSE IF c < 2048 THEN 2 ELSE IF c < 65536 THEN 3 ELSE 4

RECURSIVE Flat(_)
Flat(ss) == IF ss = <<>> THEN <<>> ELSE Head(ss) \o Flat(Tail(ss))

Bytes(s) == Flat([i \in 1 .. Len(s) |-> Utf8(s[i])])

RECURSIVE ByteLen(_)
ByteLen(s) == IF s = <<>> THEN 0 ELSE Utf8Len(Head(s)) + ByteLen(Tail(s))

\* byte offset (0-based) of the start of code point i; Offset(s, Len(s) + 1) = ByteLen(s)
Offset(s, i) == ByteLen(SubSeq(s, 1, i - 1))

IsBoundary(s, k) == \E i \in 1 .. Len(s) + 1 : Offset(s, i) = k
CpIndexAt(s, k) == CHOOSE i \in 1 .. Len(s) + 1 : Offset(s, i) = k

(***************************************************************************)
(* Results                                                                 *)
(***************************************************************************)
RStr(s)   == [t |-> "str", v |-> s]
RStrs(ss) == [t |-> "strs", v |-> ss]          \* what an iterator of strings yields
RRngs(rs) == [t |-> "rngs", v |-> rs]          \* ranges <<a, b>>: a .. b (exclusive)
RInts(ns) == [t |-> "ints", v |-> ns]
RInt(n)   == [t |-> "int", v |-> n]
RBool(b)  == [t |-> "bool", v |-> b]
RNull     == [t |-> "null"]
RErr      == [t |-> "err"]                      \* an error is thrown
RAny      == [t |-> "any"]                      \* not decided by the documentation: any value or error (text must be valid)
RNum      == [t |-> "num"]                      \* some number (its value is not decided here)

(***************************************************************************)
(* Indexing and slicing (guide: String Indexing -- by bytes; an error when *)
(* the indexed bytes would produce invalid UTF-8)                          *)
(***************************************************************************)
Slice(s, a, b) ==          \* bytes a .. b (exclusive), 0-based
    IF a < 0 \/ b > ByteLen(s) \/ a > b THEN RAny                 \* reaching outside the string: not decided
    ELSE IF ~IsBoundary(s, a) \/ ~IsBoundary(s, b) THEN RErr
    ELSE RStr(SubSeq(s, CpIndexAt(s, a), CpIndexAt(s, b) - 1))

Index(s, k) == IF k < 0 \/ k >= ByteLen(s) THEN RAny ELSE Slice(s, k, k + 1)

(***************************************************************************)
(* Grapheme clusters                                                       *)
(***************************************************************************)
Class(c) == CASE c = 13 -> "cr"
              [] c = 10 -> "lf"
              [] c = 9 -> "ctl"
              [] c = 769 -> "ext"          \* U+0301 combining acute accent
              [] c = 8205 -> "zwj"         \* U+200D zero width joiner
              [] c = 128512 -> "pict"      \* U+1F600
              [] c = 128104 -> "pict"      \* U+1F468
              [] OTHER -> "o"

\* does code point c continue the cluster cur (non-empty)?
Continues(cur, c) ==
    LET p == Class(cur[Len(cur)]) IN
    \/ p = "cr" /\ Class(c) = "lf"                                            \* GB3
    \/ Class(c) \in {"ext", "zwj"} /\ p \notin {"cr", "lf", "ctl"}             \* GB4, GB9
    \/ /\ Class(c) = "pict" /\ p = "zwj"                                       \* GB11: pict ext* zwj x pict
       /\ \E j \in 1 .. Len(cur) - 1 :
             /\ Class(cur[j]) = "pict"
             /\ \A m \in j + 1 .. Len(cur) - 1 : Class(cur[m]) = "ext"

RECURSIVE Clu(_, _, _)
Clu(s, i, acc) ==          \* acc: clusters so far, the last one open
    IF i > Len(s) THEN acc
    ELSE IF acc # <<>> /\ Continues(acc[Len(acc)], s[i])
         THEN Clu(s, i + 1, [acc EXCEPT ![Len(acc)] = Append(@, s[i])])
         ELSE Clu(s, i + 1, Append(acc, <<s[i]>>))

Clusters(s) == Clu(s, 1, <<>>)

Chars(s) == RStrs(Clusters(s))

RECURSIVE CluRanges(_, _, _)
CluRanges(cl, i, at) ==
    IF i > Len(cl) THEN <<>>
    ELSE <<<<at, at + ByteLen(cl[i])>>>> \o CluRanges(cl, i + 1, at + ByteLen(cl[i]))

CharIndices(s) == RRngs(CluRanges(Clusters(s), 1, 0))

(***************************************************************************)
(* Searching                                                               *)
(***************************************************************************)
MatchAt(s, p, i) == i + Len(p) - 1 <= Len(s) /\ SubSeq(s, i, i + Len(p) - 1) = p

\* least position >= from where p occurs, 0 when there is none
Find(s, p, from) ==
    LET H == {i \in from .. Len(s) - Len(p) + 1 : MatchAt(s, p, i)} IN
    IF H = {} THEN 0 ELSE CHOOSE i \in H : \A j \in H : i <= j

Contains(s, p)   == RBool(Find(s, p, 1) # 0)
StartsWith(s, p) == RBool(MatchAt(s, p, 1))
EndsWith(s, p)   == RBool(Len(p) <= Len(s) /\ SubSeq(s, Len(s) - Len(p) + 1, Len(s)) = p)
StripPrefix(s, p) == IF MatchAt(s, p, 1) THEN RStr(SubSeq(s, Len(p) + 1, Len(s))) ELSE RNull
StripSuffix(s, p) == IF EndsWith(s, p).v THEN RStr(SubSeq(s, 1, Len(s) - Len(p))) ELSE RNull

\* split wherever p (non-empty) is encountered, left to right, matches do not overlap
RECURSIVE SplitFrom(_, _, _)
SplitFrom(s, p, from) ==
    LET k == Find(s, p, from) IN
    IF k = 0 THEN <<SubSeq(s, from, Len(s))>>
    ELSE <<SubSeq(s, from, k - 1)>> \o SplitFrom(s, p, k + Len(p))

\* the empty pattern is encountered at every character boundary, the two ends included
SplitEmpty(s) == <<<<>>>> \o [i \in 1 .. Len(s) |-> <<s[i]>>] \o <<<<>>>>
Split(s, p) == RStrs(IF p = <<>> THEN SplitEmpty(s) ELSE SplitFrom(s, p, 1))

RECURSIVE Join(_, _)
Join(ss, p) == IF ss = <<>> THEN <<>>
               ELSE IF Len(ss) = 1 THEN ss[1]
               ELSE ss[1] \o p \o Join(Tail(ss), p)

Replace(s, p, r) == RStr(Join(Split(s, p).v, r))

\* split where the predicate holds for a grapheme cluster (the function form of split)
RECURSIVE SplitClu(_, _, _, _)
SplitClu(cl, i, sep, cur) ==
    IF i > Len(cl) THEN <<cur>>
    ELSE IF cl[i] = sep THEN <<cur>> \o SplitClu(cl, i + 1, sep, <<>>)
    ELSE SplitClu(cl, i + 1, sep, cur \o cl[i])

\* The documentation does not say whether a separator at the very end yields a final empty piece.  The runtime yields it for
\* the pattern form (Split above, as the law split/join requires) and not for the function form; the function form is specified
\* as the code behaves (deviation SF1, DESIGN.md): a final empty piece is not yielded.
DropFinalEmpty(ss) == IF ss # <<>> /\ ss[Len(ss)] = <<>> THEN SubSeq(ss, 1, Len(ss) - 1) ELSE ss
SplitFn(s, sep) == RStrs(DropFinalEmpty(SplitClu(Clusters(s), 1, sep, <<>>)))

(***************************************************************************)
(* Lines: a line ends with \n or \r\n; the end of the text ends the last   *)
(* line (an empty last line is not a line)                                 *)
(***************************************************************************)
StripCr(l) == IF l # <<>> /\ l[Len(l)] = 13 THEN SubSeq(l, 1, Len(l) - 1) ELSE l

RECURSIVE LinesFrom(_, _)
LinesFrom(s, from) ==
    IF from > Len(s) THEN <<>>
    ELSE LET k == Find(s, <<10>>, from) IN
         IF k = 0 THEN <<SubSeq(s, from, Len(s))>>
         ELSE <<StripCr(SubSeq(s, from, k - 1))>> \o LinesFrom(s, k + 1)

Lines(s) == RStrs(LinesFrom(s, 1))

(***************************************************************************)
(* Trimming                                                                *)
(***************************************************************************)
IsWhite(c) == c \in {9, 10, 13, 32, 160, 12288}

RECURSIVE TrimStartW(_)
TrimStartW(s) == IF s # <<>> /\ IsWhite(Head(s)) THEN TrimStartW(Tail(s)) ELSE s
RECURSIVE TrimEndW(_)
TrimEndW(s) == IF s # <<>> /\ IsWhite(s[Len(s)]) THEN TrimEndW(SubSeq(s, 1, Len(s) - 1)) ELSE s

RECURSIVE TrimStartP(_, _)
TrimStartP(s, p) == IF p # <<>> /\ MatchAt(s, p, 1) THEN TrimStartP(SubSeq(s, Len(p) + 1, Len(s)), p) ELSE s
RECURSIVE TrimEndP(_, _)
TrimEndP(s, p) == IF p # <<>> /\ EndsWith(s, p).v THEN TrimEndP(SubSeq(s, 1, Len(s) - Len(p)), p) ELSE s

(***************************************************************************)
(* Case mapping (the letters of the alphabet; everything else maps to      *)
(* itself)                                                                 *)
(***************************************************************************)
Upper(c) == CASE c = 97 -> <<65>>           \* a -> A
              [] c = 233 -> <<201>>         \* e acute
              [] c = 223 -> <<83, 83>>      \* sharp s -> SS
              [] c = 115 -> <<83>>          \* s -> S
              [] OTHER -> <<c>>
Lower(c) == CASE c = 65 -> <<97>>
              [] c = 201 -> <<233>>
              [] c = 83 -> <<115>>
              [] OTHER -> <<c>>

ToUpper(s) == RStr(Flat([i \in 1 .. Len(s) |-> Upper(s[i])]))
ToLower(s) == RStr(Flat([i \in 1 .. Len(s) |-> Lower(s[i])]))

RECURSIVE Rep(_, _)
Rep(s, n) == IF n = 0 THEN <<>> ELSE s \o Rep(s, n - 1)
Repeat(s, n) == IF n < 0 THEN RErr ELSE RStr(Rep(s, n))

(***************************************************************************)
(* Numbers as text                                                         *)
(***************************************************************************)
DigitCp(d, upper) == IF d < 10 THEN 48 + d ELSE (IF upper THEN 55 ELSE 87) + d

RECURSIVE NatText(_, _, _)
NatText(n, base, upper) ==
    IF n < base THEN <<DigitCp(n, upper)>> ELSE NatText(n \div base, base, upper) \o <<DigitCp(n % base, upper)>>

IntText(n) == IF n < 0 THEN <<45>> \o NatText(-n, 10, FALSE) ELSE NatText(n, 10, FALSE)

DigitVal(c) == IF c \in 48 .. 57 THEN c - 48
               ELSE IF c \in 97 .. 122 THEN c - 87
               ELSE IF c \in 65 .. 90 THEN c - 55 ELSE 99

RECURSIVE NatVal(_, _, _)
NatVal(s, base, acc) == IF s = <<>> THEN acc ELSE NatVal(Tail(s), base, acc * base + DigitVal(Head(s)))

AllDigits(s, base) == s # <<>> /\ \A i \in 1 .. Len(s) : DigitVal(s[i]) < base

\* to_number without a base: what docs/core_lib/string.md decides; everything else is left open
ToNumber(s) ==
    LET neg  == s # <<>> /\ s[1] = 45
        body == IF neg THEN Tail(s) ELSE s
        dot  == {i \in 1 .. Len(body) : body[i] = 46}
    IN IF Len(s) >= 2 /\ s[1] = 48 /\ s[2] \in {120, 111, 98} THEN          \* 0x, 0o, 0b
          (LET base == CASE s[2] = 120 -> 16 [] s[2] = 111 -> 8 [] OTHER -> 2
               ds == SubSeq(s, 3, Len(s)) IN
           IF AllDigits(ds, base) THEN RInt(NatVal(ds, base, 0))
           ELSE IF ds = <<>> \/ \E i \in 1 .. Len(ds) : DigitVal(ds[i]) = 99 /\ ds[i] \notin {45, 43} THEN RNull
           ELSE RAny)                                                    \* e.g. a sign after the prefix: not decided
       ELSE IF AllDigits(body, 10) THEN RInt(IF neg THEN -NatVal(body, 10, 0) ELSE NatVal(body, 10, 0))
       ELSE IF /\ Cardinality(dot) = 1
               /\ LET d == CHOOSE i \in dot : TRUE IN
                    AllDigits(SubSeq(body, 1, d - 1), 10) /\ AllDigits(SubSeq(body, d + 1, Len(body)), 10)
            THEN RNum                                                       \* a decimal point produces a float
       ELSE IF s = <<>> \/ \A i \in 1 .. Len(s) : DigitVal(s[i]) = 99 /\ s[i] \notin {45, 46, 43} THEN RNull
       ELSE RAny

ToNumberBase(s, base) ==
    IF base < 2 \/ base > 36 THEN RErr
    ELSE IF AllDigits(s, base) THEN RInt(NatVal(s, base, 0))
    ELSE IF s = <<>> \/ \E i \in 1 .. Len(s) : DigitVal(s[i]) >= base /\ s[i] # 45 THEN RNull
    ELSE RAny

(***************************************************************************)
(* Format options (guide: String Formatting).  opt = [fill, align, width,  *)
(* prec, rep]; fill: a cluster or <<>>; align: "", "<", "^", ">";          *)
(* width, prec: -1 when absent; rep: "", "x", "X", "b", "o"                *)
(***************************************************************************)
TakeClusters(cl, n) == Flat(SubSeq(cl, 1, IF n < Len(cl) THEN n ELSE Len(cl)))

Pad(t, opt, default) ==
    LET n    == Len(Clusters(t))
        pad  == IF opt.width > n THEN opt.width - n ELSE 0
        f    == IF opt.fill = <<>> THEN <<32>> ELSE opt.fill
        al   == IF opt.align = "" THEN default ELSE opt.align
        l    == IF al = "<" THEN 0 ELSE IF al = ">" THEN pad ELSE pad \div 2
    IN Rep(f, l) \o t \o Rep(f, pad - l)

FormatStr(s, opt) ==
    IF opt.rep # "" THEN RAny
    ELSE RStr(Pad(IF opt.prec >= 0 THEN TakeClusters(Clusters(s), opt.prec) ELSE s, opt, "<"))

FormatInt(n, opt) ==
    LET body == CASE opt.rep = "" -> IF opt.prec > 0 THEN IntText(n) \o <<46>> \o Rep(<<48>>, opt.prec) ELSE IntText(n)
                  [] opt.rep = "x" -> NatText(n, 16, FALSE)
                  [] opt.rep = "X" -> NatText(n, 16, TRUE)
                  [] opt.rep = "b" -> NatText(n, 2, FALSE)
                  [] opt.rep = "o" -> NatText(n, 8, FALSE)
    IN IF n < 0 /\ (opt.rep # "" \/ opt.fill = <<48>>) THEN RAny            \* sign with radix / zero padding: not decided
       ELSE IF opt.rep # "" /\ opt.prec >= 0 THEN RAny
       ELSE RStr(Pad(body, opt, ">"))

\* the property's law: a formatted field has at least the requested width (in clusters).  A value that starts with a combining
\* mark or joiner merges with the fill before it; TLC found that the law cannot hold for those (e.g. a lone U+0301 centred in 3)
WidthLaw(val, r, opt) ==
    (r.t = "str" /\ (val = <<>> \/ Class(val[1]) \notin {"ext", "zwj"})) => Len(Clusters(r.v)) >= opt.width

(***************************************************************************)
(* Escape codes (guide: String Escape Codes): the text of a literal is a   *)
(* sequence of pieces, each a plain code point or an escape                *)
(***************************************************************************)
EscValue(e) == CASE e.k = "plain" -> <<e.c>>
                 [] e.k = "n" -> <<10>>
                 [] e.k = "r" -> <<13>>
                 [] e.k = "t" -> <<9>>
                 [] e.k = "sq" -> <<39>>
                 [] e.k = "dq" -> <<34>>
                 [] e.k = "bs" -> <<92>>
                 [] e.k = "brace" -> <<123>>
                 [] e.k = "u" -> <<e.c>>        \* \u{...}: up to 6 hex digits, at most 10ffff
                 [] e.k = "x" -> <<e.c>>        \* \xNN: an ASCII character

Literal(pieces) ==
    IF \E i \in 1 .. Len(pieces) : \/ (pieces[i].k = "u" /\ (pieces[i].c > 1114111 \/ pieces[i].c \in 55296 .. 57343))
                                    \/ (pieces[i].k = "x" /\ pieces[i].c > 127)
    THEN RErr
    ELSE RStr(Flat([i \in 1 .. Len(pieces) |-> EscValue(pieces[i])]))

(***************************************************************************)
(* The cases TLC enumerates                                                *)
(***************************************************************************)
MaxLen == atoi(IOEnv.MAXLEN)      \* strings up to this many code points
Group  == IOEnv.GROUP             \* which family of cases this run enumerates

RECURSIVE SeqsUpTo(_, _)
SeqsUpTo(S, n) == IF n = 0 THEN {<<>>} ELSE SeqsUpTo(S, n - 1) \cup {Append(q, x) : q \in SeqsUpTo(S, n - 1), x \in S}
\* (the union keeps shorter strings; Append on all shorter ones yields all strings of length <= n)

SigmaU == {97, 233, 26085, 128512, 769, 13, 10, 32, 8205}      \* a, e-acute, CJK, emoji, combining, CR, LF, space, ZWJ
SigmaP == {97, 233, 769, 88}                                   \* a, e-acute, combining, X
SigmaT == {97, 32, 10, 12288, 769}                             \* a, space, LF, ideographic space, combining
SigmaC == {97, 65, 233, 201, 223, 83, 115, 26085, 769}         \* letters with case, sharp s, CJK, combining
SigmaN == {48, 49, 55, 57, 97, 102, 120, 98, 111, 45, 46, 122} \* 0 1 7 9 a f x b o - . z

Opts == [fill : {<<>>, <<95>>, <<48>>, <<233>>, <<101, 769>>}, align : {"", "<", "^", ">"}, width : {-1, 0, 1, 3, 6},
         prec : {-1, 0, 1, 2}, rep : {""}]
OptsOk(o) == (o.fill # <<>> /\ o.align = "") => (o.fill = <<48>> /\ o.width >= 0)   \* a fill needs an alignment, except 0
IntOpts == [fill : {<<>>, <<95>>, <<48>>}, align : {"", "<", "^", ">"}, width : {-1, 0, 3, 9}, prec : {-1, 0, 2},
            rep : {"", "x", "X", "b", "o"}]

Pieces == {[k |-> "plain", c |-> 97], [k |-> "plain", c |-> 233], [k |-> "n", c |-> 0], [k |-> "r", c |-> 0],
           [k |-> "t", c |-> 0], [k |-> "sq", c |-> 0], [k |-> "dq", c |-> 0], [k |-> "bs", c |-> 0], [k |-> "brace", c |-> 0],
           [k |-> "u", c |-> 0], [k |-> "u", c |-> 65], [k |-> "u", c |-> 233], [k |-> "u", c |-> 26085],
           [k |-> "u", c |-> 128512], [k |-> "u", c |-> 1114111], [k |-> "u", c |-> 1114112], [k |-> "u", c |-> 55296],
           [k |-> "x", c |-> 65], [k |-> "x", c |-> 127], [k |-> "x", c |-> 128], [k |-> "x", c |-> 255], [k |-> "x", c |-> 0]}

Case(op, s, a, r) == [op |-> op, s |-> s, a |-> a, r |-> r]

\* the cases are enumerated per key (a string, a number, a literal); TLC takes one state per key
Keys ==
    CASE Group \in {"slice", "slice_open", "clusters", "format"} -> SeqsUpTo(SigmaU, MaxLen)
      [] Group = "pattern" -> SeqsUpTo(SigmaP, MaxLen)
      [] Group = "trim" -> SeqsUpTo(SigmaT, MaxLen)
      [] Group = "case" -> SeqsUpTo(SigmaC, MaxLen)
      [] Group = "number" -> SeqsUpTo(SigmaN, MaxLen)
      [] Group = "format_int" -> {<<n>> : n \in {0, 7, 60, 255, 1000, -5}}
      [] Group = "escape" -> SeqsUpTo(Pieces, MaxLen)

CasesOf(s) ==
    CASE Group = "slice" ->
            {Case("slice", s, <<a, b>>, Slice(s, a, b)) : a \in -1 .. ByteLen(s) + 2, b \in -1 .. ByteLen(s) + 2} \cup
            {Case("index", s, <<k>>, Index(s, k)) : k \in -1 .. ByteLen(s) + 2}
      [] Group = "slice_open" ->
            {Case("slice_from", s, <<a>>, Slice(s, a, ByteLen(s))) : a \in 0 .. ByteLen(s) + 2} \cup
            {Case("slice_to", s, <<b>>, Slice(s, 0, b)) : b \in 0 .. ByteLen(s) + 2} \cup
            {Case("slice_incl", s, <<a, b>>, Slice(s, a, b + 1)) : a \in 0 .. ByteLen(s) + 1, b \in 0 .. ByteLen(s) + 1}
      [] Group = "clusters" ->
            {Case("chars", s, <<>>, Chars(s)), Case("char_indices", s, <<>>, CharIndices(s)),
             Case("bytes", s, <<>>, RInts(Bytes(s))), Case("size", s, <<>>, RInt(ByteLen(s))),
             Case("lines", s, <<>>, Lines(s)), Case("iterate", s, <<>>, Chars(s)),
             \* an iterator that has been consumed stays exhausted (guide: Iterators)
             Case("again", s, <<"chars">>, RStrs(<<>>)), Case("again", s, <<"lines">>, RStrs(<<>>)),
             Case("again", s, <<"bytes">>, RStrs(<<>>)), Case("again", s, <<"char_indices">>, RStrs(<<>>))}
      [] Group = "pattern" ->
            UNION {{Case("split", s, <<p>>, Split(s, p)), Case("contains", s, <<p>>, Contains(s, p)),
                    Case("starts_with", s, <<p>>, StartsWith(s, p)), Case("ends_with", s, <<p>>, EndsWith(s, p)),
                    Case("strip_prefix", s, <<p>>, StripPrefix(s, p)), Case("strip_suffix", s, <<p>>, StripSuffix(s, p)),
                    Case("trim_p", s, <<p>>, RStr(TrimEndP(TrimStartP(s, p), p))),
                    Case("trim_start_p", s, <<p>>, RStr(TrimStartP(s, p))), Case("trim_end_p", s, <<p>>, RStr(TrimEndP(s, p)))}
                   : p \in SeqsUpTo(SigmaP, 2)} \cup
            {Case("replace", s, <<p, r>>, Replace(s, p, r)) : p \in SeqsUpTo(SigmaP, 2), r \in {<<>>, <<88>>, <<233, 769>>, <<97, 97>>}} \cup
            {Case("split_fn", s, <<p>>, SplitFn(s, p)) : p \in {<<88>>, <<233>>, <<97, 769>>, <<769>>}} \cup
            {Case("split_again", s, <<p>>, RStrs(<<>>)) : p \in {<<88>>, <<233>>, <<97, 769>>}}
      [] Group = "trim" ->
            {Case("trim", s, <<>>, RStr(TrimEndW(TrimStartW(s)))), Case("trim_start", s, <<>>, RStr(TrimStartW(s))),
             Case("trim_end", s, <<>>, RStr(TrimEndW(s)))}
      [] Group = "case" ->
            {Case("to_uppercase", s, <<>>, ToUpper(s)), Case("to_lowercase", s, <<>>, ToLower(s))} \cup
            (IF Len(s) <= 2 THEN {Case("repeat", s, <<n>>, Repeat(s, n)) : n \in -1 .. 3} ELSE {})
      [] Group = "number" ->
            {Case("to_number", s, <<>>, ToNumber(s))} \cup
            (IF Len(s) < MaxLen THEN {Case("to_number_base", s, <<b>>, ToNumberBase(s, b)) : b \in {1, 2, 8, 10, 16, 36, 37}} ELSE {})
      [] Group = "format" ->
            {Case("format_str", s, o, FormatStr(s, o)) : o \in {o \in Opts : OptsOk(o)}}
      [] Group = "format_int" ->
            {Case("format_int", <<>>, [o |-> o, n |-> s[1]], FormatInt(s[1], o)) : o \in {o \in IntOpts : OptsOk(o)}}
      [] Group = "escape" ->
            {Case("literal", <<>>, s, Literal(s))}

(***************************************************************************)
(* Laws of the property, checked on the definitions for every case         *)
(***************************************************************************)
Law(c) ==
    CASE c.op = "chars" -> Flat(c.r.v) = c.s /\ \A i \in 1 .. Len(c.r.v) : c.r.v[i] # <<>>
      [] c.op = "char_indices" ->
            /\ \A i \in 1 .. Len(c.r.v) : Slice(c.s, c.r.v[i][1], c.r.v[i][2]) = RStr(Clusters(c.s)[i])
            /\ (c.r.v # <<>> => c.r.v[1][1] = 0 /\ c.r.v[Len(c.r.v)][2] = ByteLen(c.s))
      [] c.op = "split" -> (c.r.t = "strs" => Join(c.r.v, c.a[1]) = c.s)
      [] c.op = "split_fn" -> Join(c.r.v, c.a[1]) = c.s \/ Join(c.r.v, c.a[1]) \o c.a[1] = c.s
      [] c.op = "format_str" -> WidthLaw(c.s, c.r, c.a)
      [] c.op = "format_int" -> WidthLaw(<<48>>, c.r, c.a.o)
      [] c.op = "slice" -> (c.r.t = "str" => Bytes(c.r.v) = SubSeq(Bytes(c.s), c.a[1] + 1, c.a[2]))
      [] c.op = "bytes" -> Len(c.r.v) = ByteLen(c.s)
      [] c.op = "lines" -> \A i \in 1 .. Len(c.r.v) : 10 \notin {c.r.v[i][j] : j \in 1 .. Len(c.r.v[i])}
      [] OTHER -> TRUE

VARIABLES key, phase
Init == key \in Keys /\ phase = "emit"
Next == /\ phase = "emit" /\ phase' = "done" /\ key' = key
        /\ \A c \in CasesOf(key) : Assert(Law(c), <<"law violated on the definitions", c>>)
        /\ PrintT(<<"CASES", ToJson(CasesOf(key))>>)
=============================================================================
