INIT Init
NEXT Next
