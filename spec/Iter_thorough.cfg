CONSTANTS
  MaxLen = 5
  MaxDepth = 3
INIT Init
NEXT Next
