----------------------------- MODULE FmtShapes -----------------------------
(***************************************************************************)
(* Formatter (C11), input space of block positions.                        *)
(*                                                                         *)
(* Every construct that introduces an indented block (Headers: function,   *)
(* if / else if / else, for, while, until, loop, try / catch / finally,    *)
(* match and switch arms, a function in a block map) is combined with      *)
(* every form of expression as the block's only expression (Bodies), with  *)
(* and without comments around it (Decorations).  TLC emits the texts; the *)
(* driver formats each one and validates the trace Original -> Format ->   *)
(* Format against Format.tla (same syntax tree, same comments, idempotent).*)
(* A text that the parser rejects drops out (the property is about         *)
(* programs that parse).  A second space, further down: every form of      *)
(* expression in every expression position.                                *)
(***************************************************************************)
EXTENDS Naturals, Sequences, TLC, Json

\* <<text before the body, indentation of the body, text after it>>
Headers == {
    <<"f = |x|\n", "  ", "">>,
    <<"f = |x, y|\n", "  ", "print f 1, 2\n">>,
    <<"if x\n", "  ", "">>,
    <<"if x\n  1\nelse\n", "  ", "">>,
    <<"if x\n  1\nelse if y\n", "  ", "else\n  2\n">>,
    <<"z = if x\n", "  ", "else\n  1\n">>,
    <<"for x in y\n", "  ", "">>,
    <<"for a, b in y\n", "  ", "print a\n">>,
    <<"while x\n", "  ", "">>,
    <<"until x\n", "  ", "">>,
    <<"loop\n", "  ", "">>,
    <<"try\n", "  ", "catch e\n  1\n">>,
    <<"try\n  1\ncatch e\n", "  ", "">>,
    <<"try\n  1\ncatch e: String\n  2\ncatch e\n", "  ", "">>,
    <<"try\n  1\ncatch e\n  2\nfinally\n", "  ", "">>,
    <<"match x\n  1 then\n", "    ", "  else\n    2\n">>,
    <<"match x\n  1 then 2\n  else\n", "    ", "">>,
    <<"match x\n  (a, b) if a then\n", "    ", "">>,
    <<"switch\n  x then\n", "    ", "  else\n    2\n">>,
    <<"switch\n  x then 1\n  else\n", "    ", "">>,
    <<"m =\n  k: |x|\n", "    ", "  j: 2\n">>,
    <<"f = |x|\n  g = |y|\n", "    ", "  g\n">>,
    <<"export f = |x|\n", "  ", "">>,
    <<"@test t = ||\n", "  ", "">>,
    <<"x = g |a|\n", "  ", "">>,
    <<"y.each |a|\n", "  ", "">> }

Bodies == {
    "1", "-1", "1.5", "0xff", "true", "null", "self", "x", "'s'", "\"d\"", "r'raw'", "'{x}'", "'{x:>5}'",
    "{a: 1}", "{x, y}", "{}", "{a: {b: 1}}", "{@type: 'T'}", "[1, 2]", "[]", "[[1], [2]]", "(1, 2)", "()", "(x)", "(1,)", "((x))",
    "g x", "g(x)", "g()", "g x, y", "g(x) y", "x.y", "x.y()", "x.y 1", "x.y.z.w()", "x[0]", "x[1..]", "x?.y", "x.'k'",
    "|a| a", "|| 1", "|a| {a}", "a: 1", "1..2", "1..=x", "(1..2)", "x + 1", "x + -1", "-x", "not x", "x and y", "x == 1", "1 < x < 3",
    "x -> g", "return", "return 1", "return {a: 1}", "break", "break 1", "continue", "throw x", "throw {a: 1}", "yield 1", "yield {a: 1}",
    "debug x", "assert x", "x = 1", "x = {a: 1}", "x += 1", "a, b = 1, 2", "a, b = y", "let v: Number = 1", "x.y = 1", "x[0] = 1",
    "if a then b", "if a then b else c", "if a then {a: 1} else {b: 2}", "import foo", "from foo import bar", "export a = 1",
    "x = |a| a", "x = if a then b else c", "g |a| a", "g {a: 1}", "g [1]", "g (1, 2)", "g 'a', 'b'" }

\* around the body: nothing, a trailing comment, a comment line before it, one after it (same indentation), a blank line before it,
\* an inline comment /- -/ in front of it
Decorations == {"none", "trailing", "before", "after", "blank", "inline", "both"}

Text(h, b, d) ==
    LET body == CASE d = "none"     -> h[2] \o b \o "\n"
                  [] d = "trailing" -> h[2] \o b \o " # c1\n"
                  [] d = "before"   -> h[2] \o "# c1\n" \o h[2] \o b \o "\n"
                  [] d = "after"    -> h[2] \o b \o "\n" \o h[2] \o "# c1\n"
                  [] d = "blank"    -> "\n" \o h[2] \o b \o "\n"
                  [] d = "inline"   -> h[2] \o "#- c1 -# " \o b \o "\n"
                  [] d = "both"     -> h[2] \o "# c1\n" \o h[2] \o b \o " # c2\n"
    IN h[1] \o body \o h[3]

(***************************************************************************)
(* Expression positions: every form of expression (Exprs) in every place   *)
(* an expression can stand (Contexts: `$E` marks the place), with and      *)
(* without a trailing comment.                                             *)
(***************************************************************************)
Exprs == {
    "1", "-1", "1.5", "true", "null", "x", "'s'", "\"d\"", "r'raw'", "'{x}'", "'{x:>5}'", "'a{x}b{y}'", "'it''s'",
    "{a: 1}", "{x, y}", "{}", "[1, 2]", "[]", "(1, 2)", "()", "(x)", "(1,)", "((x))", "(-1)",
    "g x", "g(x)", "g()", "g x, y", "x.y", "x.y()", "x.y 1", "x.y.z.w()", "x[0]", "x[1..]", "x?.y", "x.'k'", "x.y[0].z",
    "|a| a", "|| 1", "|a, b| a + b", "|a| |b| a", "1..2", "1..=x", "(1..2)", "x + 1", "x + -1", "x - -1", "-x", "-(x + 1)", "not x",
    "x and y", "x or y", "x == 1", "1 < x < 3", "x * (y + 1)", "(x + y) * 2", "x -> g", "x % 2 ^ 3",
    "if a then b", "if a then b else c", "yield 1", "x = 1", "x += 1", "koto.type x", "g |a| a", "g {a: 1}", "g [1]", "g (1, 2)",
    "x.each(|a| a).to_tuple()", "x.keep |a| a > 1" }

Contexts == {
    "z = $E\n", "z = ($E)\n", "print $E\n", "print($E)\n", "g $E, 1\n", "g 1, $E\n", "g(1, $E)\n", "g($E, 1)\n", "x.m $E\n", "x.m($E)\n",
    "[$E]\n", "[1, $E]\n", "[$E, 1]\n", "($E, 1)\n", "(1, $E)\n", "{k: $E}\n", "{k: $E, j: 1}\n", "m =\n  k: $E\n  j: 2\n",
    "z = $E + 1\n", "z = 1 + $E\n", "z = 2 * $E\n", "z = -$E\n", "z = not $E\n", "z = $E and y\n", "z = y or $E\n", "z = $E == y\n",
    "z = x[$E]\n", "z = x[$E..]\n", "z = '{$E}'\n", "z = 'a{$E}b'\n", "z = $E..10\n", "z = 0..$E\n",
    "if $E\n  1\n", "if $E then 1 else 2\n", "z = if x then $E else 2\n", "z = if x then 1 else $E\n", "while $E\n  1\n", "for v in $E\n  1\n",
    "match $E\n  1 then 2\n", "match x\n  1 then $E\n  else 2\n", "match x\n  y if $E then 1\n", "switch\n  $E then 1\n  else 2\n",
    "f = |a = $E| a\n", "f = || $E\n", "return $E\n", "throw $E\n", "yield $E\n", "assert $E\n", "assert_eq $E, 1\n", "debug $E\n",
    "x.y = $E\n", "x[0] = $E\n", "x += $E\n", "a, b = $E, 1\n", "a, b = 1, $E\n", "export z = $E\n", "let z: Any = $E\n",
    "$E -> g\n", "x -> $E\n", "z = ($E).y\n", "z = ($E)()\n", "z = ($E)[0]\n", "try\n  $E\ncatch e\n  1\n" }

RECURSIVE Subst(_, _)
Subst(c, e) ==      \* replace the first "$E" in c by e
    IF Len(c) < 2 THEN c
    ELSE IF SubSeq(c, 1, 2) = "$E" THEN e \o SubSeq(c, 3, Len(c))
    ELSE SubSeq(c, 1, 1) \o Subst(SubSeq(c, 2, Len(c)), e)

\* the space contains the shapes the block rules of the formatter distinguish
Covered == /\ \E h \in Headers : h[1] = "f = |x|\n"
           /\ {"{a: 1}", "a: 1", "|a| a", "(x)"} \subseteq Bodies

VARIABLES phase
Init == phase = "emit"
Next == /\ phase = "emit" /\ phase' = "done"
        /\ Assert(Covered, "the shape space lost a distinguished shape")
        /\ PrintT(<<"SHAPES", ToJson({[h |-> h[1], b |-> b, d |-> d, text |-> Text(h, b, d)] : h \in Headers, b \in Bodies, d \in Decorations})>>)
        /\ PrintT(<<"POSITIONS", ToJson([c |-> Contexts, e |-> Exprs])>>)
=============================================================================
