INIT StepInit
NEXT StepNext
INVARIANT StepOk
POSTCONDITION StepAccepted
