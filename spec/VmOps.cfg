INIT Init
NEXT Next
