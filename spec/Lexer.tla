------------------------------- MODULE Lexer -------------------------------
(***************************************************************************)
(* Lexing as an accounting machine (C09).  The state is the ledger a       *)
(* reader of the token stream keeps:                                       *)
(*   off      bytes of the input covered so far                            *)
(*   line     line breaks seen so far                                      *)
(*   col      display columns since the last line break                    *)
(*   code     the current line began in code (its line break was a NewLine *)
(*            token, not the inside of a multi-line string or comment)     *)
(*   strs     depth of open string literals (StringStart / StringEnd)      *)
(* Emit(s, t) advances the ledger by the TEXT of token t (facts computed   *)
(* by the harness from the input, not by the lexer) and checks the         *)
(* lexer's own report (span, indent) against it.  The first Error token    *)
(* ends the obligation; without one the tokens must cover the whole input. *)
(***************************************************************************)
EXTENDS Naturals, Sequences, TLC, Json, IOUtils

Inputs == ndJsonDeserialize(IOEnv.LEXED)

InitLedger == [off |-> 0, line |-> 0, col |-> 0, code |-> TRUE, strs |-> 0, ok |-> TRUE, why |-> "", n |-> 0, err |-> FALSE]
Reject(s, why) == [s EXCEPT !.ok = FALSE, !.why = why]
IsPrefix(p, str) == Len(p) <= Len(str) /\ SubSeq(str, 1, Len(p)) = p

Emit(s, t) ==
    LET s0 == [s EXCEPT !.n = @ + 1] IN
    IF t.k = "Error" THEN [s0 EXCEPT !.err = TRUE]
    ELSE IF t.s # s.off THEN Reject(s0, "Contiguous: the token does not start where the previous one ended")
    ELSE IF t.e < t.s THEN Reject(s0, "Contiguous: negative length")
    ELSE IF ~t.cb THEN Reject(s0, "CharBoundaries: the token does not start and end on a character boundary")
    ELSE IF t.sl # s.line THEN Reject(s0, "LinesAreNewlineCounts: start line differs from the number of line breaks before the token")
    ELSE IF t.el # s.line + t.nl THEN Reject(s0, "LinesAreNewlineCounts: end line differs from the number of line breaks before the token's end")
    ELSE IF t.sc # s.col THEN Reject(s0, "Columns: start column differs from the characters since the last line break")
    \* columns: the unit (characters, display width, grapheme clusters) is not fixed by the property; what is
    \* fixed: they restart at zero after each line break and never run backwards within a line
    ELSE IF t.nl > 0 /\ t.tail = 0 /\ t.ec # 0 THEN Reject(s0, "ColumnZeroAfterBreak: the column does not restart at zero after a line break")
    ELSE IF t.nl > 0 /\ t.ec > t.tailw + t.tail THEN Reject(s0, "ColumnZeroAfterBreak: the column after a line break exceeds the text since the break")
    ELSE IF t.nl = 0 /\ t.ec < s.col THEN Reject(s0, "Columns: the column runs backwards within a line")
    ELSE IF s.code /\ t.ind # t.lead THEN Reject(s0, "IndentIsLeadingWhitespace: reported indent differs from the leading whitespace of the token's line")
    ELSE IF t.k = "StringEnd" /\ s.strs = 0 THEN Reject(s0, "ModeDiscipline: StringEnd without an open string")
    ELSE [s0 EXCEPT !.off = t.e, !.line = @ + t.nl, !.col = t.ec,
                    !.code = IF t.nl > 0 THEN t.k = "NewLine" ELSE @,
                    !.strs = IF IsPrefix("StringStart", t.k) THEN @ + 1 ELSE IF t.k = "StringEnd" THEN @ - 1 ELSE @]

RECURSIVE Fold(_, _, _)
Fold(s, toks, i) == IF i > Len(toks) \/ ~s.ok \/ s.err THEN s ELSE Fold(Emit(s, toks[i]), toks, i + 1)

Verdict(k) ==
    LET inp == Inputs[k]
        s == Fold(InitLedger, inp.toks, 1)
        s2 == IF ~s.ok THEN s
              ELSE IF inp.capped /\ ~s.err THEN Reject(s, "Termination: the lexer keeps producing tokens without reporting an error")
              ELSE IF ~s.err /\ s.off # inp.len THEN Reject(s, "Lossless: the tokens do not cover the whole input")
              ELSE s
    IN [id |-> inp.id, ok |-> s2.ok, why |-> s2.why, at |-> s2.n, tokens |-> Len(inp.toks)]

VARIABLES idx, phase
Init == idx \in 1 .. Len(Inputs) /\ phase = "load"
Next == /\ phase = "load" /\ phase' = "done" /\ idx' = idx
        /\ LET v == Verdict(idx) IN (v.ok \/ PrintT(<<"BAD", ToJson(v)>>))
=============================================================================
