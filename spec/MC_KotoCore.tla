----------------------------- MODULE MC_KotoCore -----------------------------
(***************************************************************************)
(* The KotoCore machine as a transition system: Next == c' = Step(c), one  *)
(* behaviour per program read from PROGS.  TLC checks state invariants of  *)
(* the machine's heap in every reachable configuration and action          *)
(* properties on every step (C14: one entry per key, maps keep insertion   *)
(* order through every operation except sort, objects never change kind,   *)
(* the store only grows; C01/C04: the machine never gets stuck).           *)
(***************************************************************************)
EXTENDS KotoCore, Json, IOUtils

Progs == ndJsonDeserialize(IOEnv.PROGS)

VARIABLE c
Init == \E i \in 1 .. Len(Progs) : c = InitCfg(Progs[i].ast, {})
Next == c.ctl.m # "done" /\ c.n < 4000 /\ c' = Step(c)
Spec == Init /\ [][Next]_c

MapObjs(cfg) == {a \in 1 .. Len(cfg.store) : cfg.store[a].k = "map"}

(* OneEntryPerKey: two keys address the same entry exactly when they are equal as values *)
OneEntryPerKey == \A a \in MapObjs(c) : LET o == c.store[a] IN
    /\ Len(o.ks) = Len(o.vs)
    /\ \A i \in 1 .. Len(o.ks) : \A j \in (i + 1) .. Len(o.ks) : ~KeyEq(o.ks[i], o.ks[j])

(* every reference held by a container or a variable points into the store *)
RefOk(v) == v.t \in {"ref", "fn", "itr"} => v.v \in 1 .. Len(c.store)
NoDangling ==
    /\ \A x \in DOMAIN c.env : RefOk(c.env[x])
    /\ \A a \in 1 .. Len(c.store) :
         CASE c.store[a].k = "list" -> \A i \in 1 .. Len(c.store[a].v) : RefOk(c.store[a].v[i])
           [] c.store[a].k = "map" -> \A i \in 1 .. Len(c.store[a].vs) : RefOk(c.store[a].vs[i])
           [] OTHER -> TRUE

Modes == {"ev", "rt", "brk", "cnt", "ret", "thr", "done"}
TypeOK == c.ctl.m \in Modes /\ c.n \in Nat

(* ---- action properties ---- *)
KeepKeys(seq, other) == SelectSeq(seq, LAMBDA k : \E i \in 1 .. Len(other) : KeyEq(k, other[i]))
SeqKeyEq(a, b) == Len(a) = Len(b) /\ \A i \in 1 .. Len(a) : KeyEq(a[i], b[i])
In(k, seq) == \E i \in 1 .. Len(seq) : KeyEq(k, seq[i])
(* the step that applies list/map `sort` (the only operation allowed to reorder a map) *)
IsSortStep == c.ctl.m = "rt" /\ c.kont # <<>> /\ Head(c.kont).k = "args" /\ Head(c.kont).todo = <<>>
              /\ Head(c.kont).node.k = "mcall" /\ Head(c.kont).node.m = "sort"
MapKeepsInsertionOrder ==
    \A a \in MapObjs(c) :
        (a <= Len(c'.store) /\ ~IsSortStep) =>
            LET old == c.store[a].ks  new == c'.store[a].ks IN
            \* surviving keys keep their relative order ...
            /\ SeqKeyEq(KeepKeys(old, new), KeepKeys(new, old))
            \* ... and a key that is new to the map is appended after all surviving keys, unless it replaced an
            \* entry in place (assignment to an entry's index: same length, the old key at that place is gone)
            /\ \A i \in 1 .. Len(new) : ~In(new[i], old) =>
                   \/ \A j \in (i + 1) .. Len(new) : ~In(new[j], old)
                   \/ (Len(new) = Len(old) /\ ~In(old[i], new))
StoreOnlyGrows == /\ Len(c'.store) >= Len(c.store)
                  /\ \A a \in 1 .. Len(c.store) : c'.store[a].k = c.store[a].k

StepProps == MapKeepsInsertionOrder /\ StoreOnlyGrows
Props == [][StepProps]_c
=============================================================================
