INIT Init
NEXT Next
INVARIANTS NoBrokenBuilder OnBoundary OperandsInRange BalancedAtReturn FrameFirst Emit
