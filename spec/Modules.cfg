CONSTANTS
  Mods = {"a", "b", "c"}
INIT Init
NEXT Next
