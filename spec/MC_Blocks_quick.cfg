CONSTANTS
  MaxLines = 4
  MaxDepth = 2
INIT Init
NEXT Next
INVARIANTS TypeOK NeedsMoreIffEmptyBlock Emit
