INIT Init
NEXT Next
INVARIANT NoPanic
INVARIANT Linearizable
INVARIANT LocksAreSound
