------------------------------- MODULE KotoVm -------------------------------
(***************************************************************************)
(* Control state of the Koto virtual machine (crates/runtime/src/vm.rs):   *)
(* call stacks of frames with catch points and execution barriers, the     *)
(* sequence/string builder stacks, native activations (run, host calls,    *)
(* nested execute_instructions of operators / functors / generators), and  *)
(* the error in flight.  One action per linearization point of the code;   *)
(* each action is an operator  Act(s, e)  from a state and an event record *)
(* (the action's arguments, as logged by the hooks) to the successor       *)
(* state.  A successor with  ok = FALSE  is a rejected step: the event is  *)
(* not a behaviour of the specification (`why` says which rule failed).    *)
(*                                                                         *)
(* The same operators are used by                                          *)
(*   - MC_KotoVm: model checking of the design -- Next chooses events      *)
(*     nondeterministically the way the code may produce them, and the     *)
(*     invariants below are checked in every reachable state;              *)
(*   - Trace_KotoVm: validation of recorded executions -- the events of a  *)
(*     real run are folded through Apply.                                  *)
(*                                                                         *)
(* Event record fields: e (name), vm, d (call stack size after), r         *)
(* (registers after), b (register base), q / t (sequence / string builder  *)
(* stack sizes after), c (catch points in the top frame after), a, x, s    *)
(* (event specific).                                                       *)
(***************************************************************************)
EXTENDS Naturals, Sequences, FiniteSets, TLC

NoErr == [cls |-> "none"]

(* A frame: barrier (errors stop unwinding here), catch points [t |-> try ip, c |-> catch ip, q, s |->
   builder stack sizes when the try block was entered], and, per catch ip, the register count seen at
   the last entry into that handler (ghost, for NoMonotoneGrowth). *)
NewFrame == [barrier |-> FALSE, catches |-> <<>>, seen |-> <<>>, known |-> TRUE]
(* A frame that was pushed before the recording started or during a gap in it: its barrier flag and its
   catch points are not known; rules that need them abstain. *)
OpaqueFrame == [NewFrame EXCEPT !.known = FALSE]

NewVm(depth) == [frames |-> [i \in 1 .. depth |-> OpaqueFrame], pend |-> NoErr, resumed |-> FALSE]

InitState == [vms |-> <<>>,          \* sequence of [id, vm] pairs (VM ids are created dynamically)
              acts |-> <<>>,         \* native activations opened by run / host-initiated calls
              lastfail |-> "none",   \* class of the error with which the most recent activation ended
              gapped |-> FALSE,      \* events were dropped from the recording (long executions are bounded)
              ok |-> TRUE, why |-> "", n |-> 0]

Reject(s, why) == [s EXCEPT !.ok = FALSE, !.why = why]

VmIndex(s, id) == LET S == {i \in 1 .. Len(s.vms) : s.vms[i].id = id} IN IF S = {} THEN 0 ELSE CHOOSE i \in S : TRUE
(* the state with VM `id` known (first sight: a VM with e.d frames already on its stack) *)
WithVm(s, id, depth) == IF VmIndex(s, id) # 0 THEN s
                        ELSE [s EXCEPT !.vms = Append(@, [id |-> id, vm |-> NewVm(depth)])]
Vm(s, id) == s.vms[VmIndex(s, id)].vm
SetVm(s, id, vm) == [s EXCEPT !.vms[VmIndex(s, id)].vm = vm]
Top(vm) == vm.frames[Len(vm.frames)]
Last(q) == q[Len(q)]
Front(q) == SubSeq(q, 1, Len(q) - 1)

(***************************************************************************)
(* Where an error raised now in `vm` must go (the unwinding rule of        *)
(* pop_call_stack_on_error): frames are examined from the top; the first   *)
(* one with a catch point receives the error, unless a barrier frame       *)
(* without catch points is reached first (the error leaves this            *)
(* execute_instructions), or the stack runs out.  A timeout is never       *)
(* delivered to a catch point.                                             *)
(***************************************************************************)
RECURSIVE Handler(_, _, _)
Handler(frames, k, catchable) ==
    IF k = 0 THEN [kind |-> "propagate", depth |-> 0]
    ELSE IF catchable /\ frames[k].catches # <<>> THEN
        [kind |-> "caught", depth |-> k, c |-> Last(frames[k].catches).c]
    ELSE IF ~frames[k].known THEN [kind |-> "unknown", depth |-> 0]
    ELSE IF frames[k].barrier THEN [kind |-> "propagate", depth |-> k]
    ELSE Handler(frames, k - 1, catchable)

(***************************************************************************)
(* Actions                                                                 *)
(***************************************************************************)
(* run() / call_and_run_function(): a native activation opens; its register, frame and builder counts
   are remembered for the balance check at its exit. *)
ActEnter(s, e, kind) ==
    LET s1 == WithVm(s, e.vm, e.d)
        vm == Vm(s1, e.vm) IN
    IF Len(vm.frames) # e.d THEN Reject(s1, "enter: call stack size differs from the model")
    ELSE [s1 EXCEPT !.acts = Append(@, [kind |-> kind, vm |-> e.vm, r0 |-> e.r, d0 |-> e.d, q0 |-> e.q, t0 |-> e.t]),
                    !.lastfail = "none"]

(* Balanced: at the exit of an activation the register stack and the call stack are back where they were
   when it was entered -- on success and on failure; the builder stacks too. *)
ActExit(s, e, kind) ==
    IF s.gapped /\ (s.acts = <<>> \/ Last(s.acts).kind # kind \/ Last(s.acts).vm # e.vm
                     \/ Last(s.acts).r0 # e.r \/ Last(s.acts).d0 # e.d) THEN
        s      \* the exit of an activation that was entered inside the gap: nothing to compare with
    ELSE IF s.acts = <<>> THEN Reject(s, "exit without a matching enter")
    ELSE LET a == Last(s.acts) IN
         IF a.kind # kind \/ a.vm # e.vm THEN Reject(s, "exit does not match the innermost activation")
         ELSE IF e.r # a.r0 THEN Reject(s, "Balanced: registers at exit differ from registers at enter")
         ELSE IF e.d # a.d0 THEN Reject(s, "Balanced: call stack at exit differs from call stack at enter")
         ELSE IF e.q # a.q0 \/ e.t # a.t0 THEN Reject(s, "Balanced: builder stacks at exit differ from enter")
         ELSE IF VmIndex(s, e.vm) # 0 /\ Len(Vm(s, e.vm).frames) # e.d
              THEN Reject(s, "exit: call stack size differs from the model")
         ELSE [s EXCEPT !.acts = Front(@)]

FramePush(s, e) ==
    LET s1 == WithVm(s, e.vm, e.d - 1)
        vm == Vm(s1, e.vm) IN
    IF vm.pend.cls # "none" THEN Reject(s1, "frame pushed while an error is being unwound")
    ELSE IF Len(vm.frames) + 1 # e.d THEN Reject(s1, "push: call stack size differs from the model")
    ELSE SetVm(s1, e.vm, [vm EXCEPT !.frames = Append(@, NewFrame)])

(* e.a: the popped frame's barrier flag, e.x: its number of catch points (both validate the model's view) *)
FramePop(s, e) ==
    LET s1 == WithVm(s, e.vm, e.d + 1)
        vm == Vm(s1, e.vm) IN
    IF vm.frames = <<>> THEN Reject(s1, "pop: empty call stack")
    ELSE LET f == Top(vm) IN
         IF f.known /\ (e.a = 1) # f.barrier THEN Reject(s1, "pop: barrier flag differs from the model")
         ELSE IF f.known /\ e.x # Len(f.catches) THEN Reject(s1, "pop: catch point count differs from the model")
         ELSE IF Len(vm.frames) - 1 # e.d THEN Reject(s1, "pop: call stack size differs from the model")
         \* while an error is being unwound only frames above its destination may be popped
         ELSE IF vm.pend.cls # "none" /\ vm.pend.phase = "unwind" /\ vm.pend.dest.kind # "unknown"
                 /\ Len(vm.frames) <= vm.pend.dest.depth
              THEN Reject(s1, "unwinding popped the frame that should have received (or stopped) the error")
         ELSE SetVm(s1, e.vm, [vm EXCEPT !.frames = Front(@)])

(* execute_instructions() is entered: unless this is a generator being resumed, the frame on top is the
   frame of the activation that is starting and is an execution barrier. *)
Resume(s, e) ==
    LET s1 == WithVm(s, e.vm, e.d) IN SetVm(s1, e.vm, [Vm(s1, e.vm) EXCEPT !.resumed = TRUE])

ExecEnter(s, e) ==
    LET s1 == WithVm(s, e.vm, e.d)
        vm == Vm(s1, e.vm) IN
    IF Len(vm.frames) # e.d THEN Reject(s1, "exec: call stack size differs from the model")
    ELSE IF vm.frames = <<>> THEN Reject(s1, "exec: entered with an empty call stack")
    ELSE IF vm.resumed THEN SetVm(s1, e.vm, [vm EXCEPT !.resumed = FALSE])
    ELSE SetVm(s1, e.vm, [vm EXCEPT !.frames[Len(vm.frames)].barrier = TRUE])

(* e.a = 1: Ok.  An error leaves this execute_instructions: it must have been propagated first. *)
ExecExit(s, e) ==
    LET s1 == WithVm(s, e.vm, e.d)
        vm == Vm(s1, e.vm) IN
    IF e.a = 1 THEN
        (IF vm.pend.cls # "none" THEN Reject(s1, "exec returned Ok while an error was in flight")
         ELSE [s1 EXCEPT !.lastfail = "none"])
    ELSE IF s.gapped /\ vm.pend.cls = "none" THEN s1       \* the throw happened inside the gap
    ELSE IF vm.pend.cls = "none" \/ vm.pend.phase # "out" THEN Reject(s1, "exec returned Err without a propagated error")
    ELSE [SetVm(s1, e.vm, [vm EXCEPT !.pend = NoErr]) EXCEPT !.lastfail = vm.pend.cls]

(* e.a: try ip, e.x: catch ip.  NoDuplicateTry: a try block is not entered again while its catch point
   is still registered in the same frame (a stale catch point left behind by a jump out of the block). *)
TryStart(s, e) ==
    LET s1 == WithVm(s, e.vm, e.d)
        vm == Vm(s1, e.vm) IN
    IF vm.frames = <<>> \/ Len(vm.frames) # e.d THEN Reject(s1, "try: call stack size differs from the model")
    ELSE LET f == Top(vm) IN
         IF \E i \in 1 .. Len(f.catches) : f.catches[i].t = e.a THEN
            Reject(s1, "NoDuplicateTry: try block entered while its catch point is still registered (stale catch point)")
         ELSE IF f.known /\ e.c # Len(f.catches) + 1 THEN Reject(s1, "try: catch point count differs from the model")
         ELSE IF e.x <= e.a THEN Reject(s1, "try: catch ip does not follow the try ip")
         ELSE SetVm(s1, e.vm, [vm EXCEPT !.frames[Len(vm.frames)].catches =
                                              Append(@, [t |-> e.a, c |-> e.x, q |-> e.q, s |-> e.t])])

TryEnd(s, e) ==
    LET s1 == WithVm(s, e.vm, e.d)
        vm == Vm(s1, e.vm) IN
    IF vm.frames = <<>> \/ Len(vm.frames) # e.d THEN Reject(s1, "tryend: call stack size differs from the model")
    ELSE LET f == Top(vm)
             cs == IF f.catches = <<>> THEN <<>> ELSE Front(f.catches) IN
         IF f.known /\ f.catches = <<>> THEN Reject(s1, "TryBalanced: a try block was left although no catch point is registered in the frame")
         ELSE IF f.known /\ e.c # Len(cs) THEN Reject(s1, "tryend: catch point count differs from the model")
         ELSE SetVm(s1, e.vm, [vm EXCEPT !.frames[Len(vm.frames)].catches = cs])

(* An instruction failed (e.s: error class, e.a: its ip).  The destination of the error is fixed now. *)
Throw(s, e) ==
    LET s1 == WithVm(s, e.vm, e.d)
        vm == Vm(s1, e.vm) IN
    IF vm.pend.cls # "none" THEN Reject(s1, "throw while another error is in flight in the same VM")
    ELSE IF e.s = "internal" THEN Reject(s1, "NoInternalFault: the VM raised an internal error")
    ELSE IF s.lastfail = "timeout" /\ e.s # "timeout" THEN
        Reject(s1, "TimeoutStaysTimeout: a timeout from a nested execution came back as an ordinary error")
    ELSE [SetVm(s1, e.vm, [vm EXCEPT !.pend = [cls |-> e.s, ip |-> e.a, phase |-> "unwind",
                                                 dest |-> Handler(vm.frames, Len(vm.frames), e.s # "timeout")]])
            EXCEPT !.lastfail = "none"]

(* The error is delivered to a catch point (e.a: catch ip, e.x: ip of the instruction of the receiving frame
   that failed or made the failing call). *)
Caught(s, e) ==
    LET s1 == WithVm(s, e.vm, e.d)
        vm == Vm(s1, e.vm) IN
    IF vm.pend.cls = "none" THEN (IF s.gapped THEN s1 ELSE Reject(s1, "caught without a throw"))
    ELSE IF vm.pend.cls = "timeout" THEN Reject(s1, "TimeoutNeverCaught: a timeout was delivered to a catch block")
    ELSE IF vm.pend.dest.kind = "unknown" THEN SetVm(s1, e.vm, [vm EXCEPT !.pend = NoErr])
    ELSE IF vm.pend.dest.kind # "caught" THEN
        Reject(s1, "CaughtIsInnermost: the error was caught although an execution barrier lies between")
    ELSE IF vm.pend.dest.depth # e.d \/ Len(vm.frames) # e.d THEN
        Reject(s1, "CaughtIsInnermost: the error was not delivered to the innermost frame with a catch point")
    ELSE LET f == Top(vm)
             cp == Last(f.catches)
             S == {i \in 1 .. Len(f.seen) : f.seen[i].c = e.a} IN
         IF cp.c # e.a THEN Reject(s1, "CaughtIsInnermost: not the innermost catch point of the frame")
         ELSE IF ~(cp.t < e.x /\ e.x < cp.c) THEN
            Reject(s1, "CaughtWithinTry: the failing instruction lies outside the try block of the catch point (stale catch point)")
         ELSE IF e.q # cp.q \/ e.t # cp.s THEN
            Reject(s1, "BuildersRestoredAtCatch: builder stacks differ from their state at try entry")
         ELSE IF S # {} /\ (\E i \in S : f.seen[i].r # e.r) THEN
            Reject(s1, "NoMonotoneGrowth: the frame's register count differs between two entries into the same handler")
         ELSE SetVm(s1, e.vm, [vm EXCEPT !.pend = NoErr,
                                         !.frames[Len(vm.frames)].seen =
                                             IF S = {} THEN Append(@, [c |-> e.a, r |-> e.r]) ELSE @])

(* The error leaves this execute_instructions (no catch point below the barrier). *)
Propagate(s, e) ==
    LET s1 == WithVm(s, e.vm, e.d)
        vm == Vm(s1, e.vm) IN
    IF vm.pend.cls = "none" THEN (IF s.gapped THEN s1 ELSE Reject(s1, "propagate without a throw"))
    ELSE IF vm.pend.dest.kind = "unknown" THEN SetVm(s1, e.vm, [vm EXCEPT !.pend.phase = "out"])
    ELSE IF vm.pend.dest.kind # "propagate" THEN
        Reject(s1, "CaughtIsInnermost: the error left the execution although a catch point was in scope")
    ELSE IF vm.pend.dest.depth # e.d \/ Len(vm.frames) # e.d THEN
        Reject(s1, "propagate: unwinding stopped at the wrong frame")
    ELSE IF vm.pend.cls # e.s THEN Reject(s1, "propagate: error class changed during unwinding")
    ELSE SetVm(s1, e.vm, [vm EXCEPT !.pend.phase = "out"])

(* The host looks at an idle runtime: nothing may be left over (QuiescentIsClean). *)
Observe(s, e) ==
    IF s.acts # <<>> THEN Reject(s, "observe inside an activation")
    ELSE IF e.d # 0 \/ e.r # 0 \/ e.b # 0 \/ e.q # 0 \/ e.t # 0 THEN
        Reject(s, "QuiescentIsClean: the idle runtime holds frames, registers or builders")
    ELSE IF VmIndex(s, e.vm) # 0 /\ Vm(s, e.vm).pend.cls # "none" THEN Reject(s, "QuiescentIsClean: error still in flight")
    ELSE s

(* Events were dropped here (e.a of them): everything the model knew about frames is forgotten. *)
Gap(s, e) == [s EXCEPT !.vms = <<>>, !.gapped = TRUE, !.lastfail = "none"]

Apply(s, e) ==
    LET s0 == [s EXCEPT !.n = @ + 1] IN
    CASE e.e = "Gap"         -> Gap(s0, e)
      [] e.e = "RunEnter"    -> ActEnter(s0, e, "run")
      [] e.e = "RunExit"     -> ActExit(s0, e, "run")
      [] e.e = "CallFnEnter" -> ActEnter(s0, e, "callfn")
      [] e.e = "CallFnExit"  -> ActExit(s0, e, "callfn")
      [] e.e = "FramePush"   -> FramePush(s0, e)
      [] e.e = "FramePop"    -> FramePop(s0, e)
      [] e.e = "Resume"      -> Resume(s0, e)
      [] e.e = "ExecEnter"   -> ExecEnter(s0, e)
      [] e.e = "ExecExit"    -> ExecExit(s0, e)
      [] e.e = "TryStart"    -> TryStart(s0, e)
      [] e.e = "TryEnd"      -> TryEnd(s0, e)
      [] e.e = "Throw"       -> Throw(s0, e)
      [] e.e = "Caught"      -> Caught(s0, e)
      [] e.e = "Propagate"   -> Propagate(s0, e)
      [] e.e = "Observe"     -> Observe(s0, e)
      [] OTHER               -> Reject(s0, "unknown event")
=============================================================================
