------------------------------- MODULE VmOps -------------------------------
(***************************************************************************)
(* Host safety (C06), input space of the VM's own operations.              *)
(*                                                                         *)
(* CoreCalls.tla covers the core library's entry points.  This module      *)
(* covers what the VM does itself with a value: unpacking (assignment,     *)
(* function arguments, match patterns with an ellipsis in first and last   *)
(* position, nested), for loops, indexing and slicing, operators, string   *)
(* interpolation with format options, calls, member access, type hints,    *)
(* spreading, throw / catch.  Subjects: the boundary values of the pool    *)
(* and hostile objects, whose meta functions lie (a size that is not the   *)
(* number of entries, negative, huge, not a number), fail, return values   *)
(* of the wrong type, or change the container that is being taken apart    *)
(* while the VM is in the middle of the operation.                         *)
(*                                                                         *)
(* Every operation is a template with holes $X (and $Y).  The space is     *)
(* Unary x Subjects and Binary x Subjects x Seconds; TLC emits the factors *)
(* and the driver fills the holes.  Outcome alphabet: {value, error}.      *)
(* There is no Panic outcome.                                              *)
(***************************************************************************)
EXTENDS Naturals, Sequences, TLC, Json

Plain == {"nul", "tru", "n0", "n1", "nm1", "nbig", "nmax", "nmin", "rmax", "rmin", "exs", "half", "nan", "inf", "es", "a", "u", "t0", "t1", "t3",
          "l0", "l1", "l3", "m0", "m1", "r0", "r3", "rd", "it", "ex", "fn", "fn2", "fnerr", "mut", "shrink", "ml", "mk", "obj"}
Hostile == {"sz3", "szneg", "szbig", "szstr", "szerr", "sz3i", "sz3ie", "sz0i", "itbad", "nxt", "nxterr", "nxtback", "dispbad", "cmpbad",
            "callerr", "arith", "outer", "outert", "grow", "idxmut", "acc", "tyobj"}
Subjects == Plain \cup Hostile
\* second operands: a smaller set
Seconds == {"nul", "n0", "n1", "nm1", "nbig", "half", "a", "t3", "l3", "m1", "r3", "fn", "mut", "shrink", "sz3", "szneg", "cmpbad", "arith", "outer", "callerr"}

\* templates: sequences of lines (the body of a function whose argument p is a fresh pool)
Unary == {
    <<"a, b = $X", "(a, b)">>,
    <<"a, b, c, d = $X", "(a, d)">>,
    <<"a, b = $X, $X", "a">>,
    <<"f = |(a, b)| a", "f $X">>,
    <<"f = |(first..., x)| x", "f $X">>,
    <<"f = |(first..., x, y)| first", "f $X">>,
    <<"f = |(x, rest...)| rest", "f $X">>,
    <<"f = |(x, y, rest...)| (x, y, rest)", "f $X">>,
    <<"f = |(..., x)| x", "f $X">>,
    <<"f = |((a...), b)| a", "f $X">>,
    <<"f = |(first..., (a, b))| first", "f $X">>,
    <<"f = |(first..., (a...), last)| last", "f $X">>,
    <<"f = |a, (b, c), d...| (a, b, d)", "f 1, $X, 2, 3">>,
    <<"f = |a, b = 2, c...| (a, b, c)", "f $X...">>,
    <<"f = |a| a", "f $X...">>,
    <<"match $X", "  (a, b) then (a, b)", "  else 0">>,
    <<"match $X", "  (first..., x) then x", "  else 0">>,
    <<"match $X", "  (first..., x, y) then first", "  else 0">>,
    <<"match $X", "  (x, rest...) then rest", "  else 0">>,
    <<"match $X", "  (x, y, z, rest...) then rest", "  else 0">>,
    <<"match $X", "  (..., x) then x", "  else 0">>,
    <<"match $X", "  (x, ...) then x", "  else 0">>,
    <<"match $X", "  (head..., (a...), last) then last", "  else 0">>,
    <<"match $X", "  ((a...), tail...) then tail", "  else 0">>,
    <<"match $X", "  (head..., (a, b)) then head", "  else 0">>,
    <<"match $X", "  (1, 2) then 1", "  () then 2", "  (3, ...) then 3", "  else 0">>,
    <<"match $X", "  (a, b) if a then 1", "  x if x then 2", "  else 0">>,
    <<"match $X", "  null then 1", "  'a' then 2", "  0 then 3", "  x: Number then 4", "  x: Indexable then 5", "  else 0">>,
    <<"match $X, $X", "  (a, b), (c, d) then a", "  (first..., x), y then x", "  else 0">>,
    <<"n = 0", "for x in $X", "  n += 1", "  if n > 4", "    break", "n">>,
    <<"n = 0", "for a, b in $X", "  n += 1", "  if n > 4", "    break", "n">>,
    <<"n = 0", "for x in $X", "  n += 1", "  p.shrink()", "  if n > 4", "    break", "n">>,
    <<"n = 0", "for x in $X", "  n += 1", "  p.mut()", "  if n > 4", "    break", "n">>,
    <<"$X[0]">>, <<"$X[1]">>, <<"$X[2]">>, <<"$X[-1]">>, <<"$X[1..]">>, <<"$X[..1]">>, <<"$X[..]">>, <<"$X[1..=1]">>, <<"$X[2..1]">>,
    <<"$X[9007199254740992]">>, <<"$X[0.5]">>, <<"$X[0..9007199254740992]">>, <<"$X[-1..]">>, <<"$X[$X]">>,
    <<"x = $X", "x[0] = 1", "x">>, <<"x = $X", "x[1..] = 1", "x">>, <<"x = $X", "x[..] = x", "x">>, <<"x = $X", "x[0] = x", "x">>,
    <<"x = $X", "x[0] += 1", "x">>, <<"x = $X", "x[9] = 1", "x">>,
    <<"-$X">>, <<"not $X">>, <<"$X + $X">>, <<"$X == $X">>, <<"$X < $X">>, <<"x = $X", "x += x", "x">>,
    <<"'{$X}'">>, <<"'{$X:5}'">>, <<"'{$X:.2}'">>, <<"'{$X:?}'">>, <<"'{$X:x}'">>, <<"'{$X:e}'">>, <<"'{$X:_^9.1}'">>, <<"'{$X:09b}'">>,
    <<"$X()">>, <<"$X(1)">>, <<"$X(1, 2, 3)">>, <<"$X.foo">>, <<"$X.a">>, <<"$X?.foo">>, <<"$X.foo()">>, <<"$X.size()">>, <<"$X.iter()">>,
    <<"x = $X", "x.foo = 1", "x">>, <<"x = $X", "x.a += 1", "x">>, <<"x = $X", "x.foo.bar = 1", "x">>,
    <<"size $X">>, <<"koto.type $X">>, <<"koto.copy $X">>, <<"koto.deep_copy $X">>, <<"koto.hash $X">>,
    <<"if $X then 1 else 2">>, <<"n = 0", "while $X", "  n += 1", "  if n > 2", "    break", "n">>, <<"$X and 1">>, <<"$X or 1">>,
    <<"throw $X">>,
    <<"try", "  throw $X", "catch e: String", "  1", "catch e: Number", "  2", "catch e", "  e">>,
    <<"try", "  throw $X", "catch e", "  '{e}'", "finally", "  0">>,
    <<"assert $X">>, <<"assert_eq $X, $X">>, <<"assert_ne $X, $X">>, <<"assert_near $X, $X">>, <<"debug $X">>,
    <<"let v: Number = $X", "v">>, <<"let v: Iterable = $X", "v">>, <<"let v: Indexable = $X", "v">>, <<"let v: Callable = $X", "v">>,
    <<"let v: List? = $X", "v">>, <<"let v: T = $X", "v">>, <<"let v: String = $X", "v">>, <<"let v: Any = $X", "v">>,
    <<"f = |a: Indexable| -> Number", "  a[0]", "f $X">>, <<"f = |a: Iterable| -> Iterable", "  a", "f $X">>,
    <<"g = ||", "  yield $X", "  yield $X", "g().to_tuple()">>,
    <<"g = || -> Number", "  yield $X", "g().next()">>,
    <<"{a: $X}.a">>, <<"m = {}", "m.insert $X, 1", "m">>, <<"[$X, $X]">>, <<"($X, ($X,))">>,
    <<"1..$X">>, <<"$X..1">>, <<"$X..=$X">>, <<"$X..">>, <<"..$X">>,
    <<"n = 0", "for i in 0..$X", "  n += 1", "  if n > 3", "    break", "n">>,
    <<"$X.to_tuple()">>, <<"x = $X", "x.next()", "x.next_back()", "x.to_list()">>, <<"($X).size()">>, <<"($X).contains 5">>,
    <<"n = 0", "for i in $X", "  n += 1", "  if n > 3", "    break", "n">>,
    <<"$X -> size">>, <<"1 -> $X">>, <<"'a' + $X">>, <<"$X + 'a'">>, <<"export v = $X">>,
    <<"x = $X", "y = x", "x = null", "y">>, <<"f = || $X", "f()">>, <<"f = |x = $X| x", "f()">>,
    <<"switch", "  $X then 1", "  else 2">>, <<"return $X">>,
    <<"x = $X", "match x", "  (a, b) then x = null", "x">> }

Binary == {
    <<"$X + $Y">>, <<"$X - $Y">>, <<"$X * $Y">>, <<"$X / $Y">>, <<"$X % $Y">>, <<"$X ^ $Y">>,
    <<"$X < $Y">>, <<"$X <= $Y">>, <<"$X > $Y">>, <<"$X >= $Y">>, <<"$X == $Y">>, <<"$X != $Y">>, <<"1 < $X < $Y">>,
    <<"x = $X", "x += $Y", "x">>, <<"x = $X", "x -= $Y", "x">>, <<"x = $X", "x *= $Y", "x">>, <<"x = $X", "x /= $Y", "x">>, <<"x = $X", "x %= $Y", "x">>,
    <<"$X[$Y]">>, <<"$X[$Y..]">>, <<"$X[..$Y]">>, <<"$X[$Y..=$Y]">>, <<"x = $X", "x[$Y] = 1", "x">>, <<"x = $X", "x[0] = $Y", "x">>, <<"x = $X", "x[$Y..] = 0", "x">>,
    <<"$X($Y)">>, <<"$X($Y...)">>, <<"$X -> $Y">>, <<"$X..$Y">>, <<"$X..=$Y">>,
    <<"x = $X", "x.foo = $Y", "x.foo">>,
    <<"match $X, $Y", "  (a, b), (c, d) then a", "  (first..., x), (y, rest...) then x", "  else 0">>,
    <<"n = 0", "for x in $X", "  n += 1", "  $Y()", "  if n > 4", "    break", "n">>,
    <<"n = 0", "for i in $X..$Y", "  n += 1", "  if n > 3", "    break", "n">>,
    <<"assert_eq $X, $Y">>, <<"assert_near $X, $Y">>,
    <<"try", "  throw $X", "catch e", "  throw $Y">>,
    <<"a, b = $X, $Y", "(b, a)">>,
    <<"f = |(first..., x), (y, rest...)| (x, rest)", "f $X, $Y">> }

\* the space contains the cases that were found to matter
Covered == /\ "sz3" \in Subjects /\ "outer" \in Subjects
           /\ \E t \in Unary : t[1] = "f = |(first..., x)| x"
           /\ \E t \in Unary : Len(t) > 1 /\ t[2] = "  (head..., (a...), last) then last"

VARIABLES phase
Init == phase = "emit"
Next == /\ phase = "emit" /\ phase' = "done"
        /\ Assert(Covered, "the operation space lost a distinguished case")
        /\ PrintT(<<"UNARY", ToJson([t |-> Unary, x |-> Subjects])>>)
        /\ PrintT(<<"BINARY", ToJson([t |-> Binary, x |-> Subjects, y |-> Seconds])>>)
=============================================================================
