INIT Init
NEXT Next
INVARIANT StackOk
