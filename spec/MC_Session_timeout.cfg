CONSTANTS
  MaxLen = 3
  Ops = {"r_inc", "f_timeout", "f_throw", "c_bump", "c_boom", "d_lst"}
INIT Init
NEXT Next
INVARIANTS TypeOK Emit
