------------------------------ MODULE ChunkCfg ------------------------------
(***************************************************************************)
(* Well-formedness of compiled code (C05), decided by exploring the        *)
(* control-flow graph of REAL compiled chunks with TLC.                    *)
(*                                                                         *)
(* Input (file named by CHUNKS, one JSON record per chunk, produced by     *)
(* `kv chunk` with the public InstructionReader):                          *)
(*   ins    instruction records [ip, nx, op, cl (class), rs (register      *)
(*          operands), tg (jump target / catch ip / end of function body), *)
(*          n, ks (constant references [index, kind])]                     *)
(*   at     at[ip + 1] = index into ins of the instruction starting at ip, *)
(*          0 if ip is not an instruction boundary                         *)
(*   roots  [start, end, regs]: the main body and every function body      *)
(*   ckinds kind of every constant                                         *)
(*                                                                         *)
(* State: one abstract execution point [c (chunk), f (root), ip, q, s      *)
(* (sequence / string builder depths), tries (stack of catch points)].     *)
(* Every path is explored, including the exceptional edges from any        *)
(* instruction inside a try block to the innermost catch point.            *)
(***************************************************************************)
EXTENDS Naturals, Sequences, TLC, Json, IOUtils

Chunks == ndJsonDeserialize(IOEnv.CHUNKS)

VARIABLE p          \* the abstract execution point
vars == <<p>>

Ins(c) == Chunks[c].ins
IndexAt(c, ip) == IF ip + 1 \in 1 .. Len(Chunks[c].at) THEN Chunks[c].at[ip + 1] ELSE 0
Root(c, f) == Chunks[c].roots[f]
Cur == Ins(p.c)[IndexAt(p.c, p.ip)]

Init == \E c \in 1 .. Len(Chunks) : \E f \in 1 .. Len(Chunks[c].roots) :
            p = [c |-> c, f |-> f, ip |-> Chunks[c].roots[f].start, q |-> 0, s |-> 0, tries |-> <<>>, bad |-> ""]

(* instructions that cannot raise an error *)
Pure == {"NewFrame", "Copy", "SetNull", "SetBool", "SetNumber", "LoadFloat", "LoadInt", "LoadString", "Jump", "JumpBack",
         "JumpIfTrue", "JumpIfFalse", "JumpIfNull", "TryStart", "TryEnd", "SequenceStart", "StringStart", "MakeMap",
         "Function", "RangeFull", "Return"}

Stuck(why) == p' = [p EXCEPT !.bad = why]
Goto(ip) == p' = [p EXCEPT !.ip = ip]

(* the point is inside its function and on an instruction boundary *)
InBounds == p.ip >= Root(p.c, p.f).start /\ p.ip < Root(p.c, p.f).end /\ IndexAt(p.c, p.ip) # 0

Normal ==
    /\ p.bad = "" /\ InBounds
    /\ LET i == Cur IN
       CASE i.cl \in {"plain", "frame", "yield"} -> Goto(i.nx)
         [] i.cl = "fn"       -> Goto(i.tg)                \* the body is explored from its own root
         [] i.cl = "jump"     -> Goto(i.tg)
         [] i.cl = "cjump"    -> Goto(i.nx) \/ Goto(i.tg)
         [] i.cl = "seqstart" -> p' = [p EXCEPT !.ip = i.nx, !.q = @ + 1]
         [] i.cl = "seqend"   -> IF p.q = 0 THEN Stuck("sequence finished without a builder")
                                 ELSE p' = [p EXCEPT !.ip = i.nx, !.q = @ - 1]
         [] i.cl = "strstart" -> p' = [p EXCEPT !.ip = i.nx, !.s = @ + 1]
         [] i.cl = "strend"   -> IF p.s = 0 THEN Stuck("string finished without a builder")
                                 ELSE p' = [p EXCEPT !.ip = i.nx, !.s = @ - 1]
         \* a piece can only be added to a string / sequence that is being built in this function
         [] i.cl = "strpush"  -> IF p.s = 0 THEN Stuck("string piece pushed without a builder") ELSE Goto(i.nx)
         [] i.cl = "seqpush"  -> IF p.q = 0 THEN Stuck("sequence element pushed without a builder") ELSE Goto(i.nx)
         [] i.cl = "trystart" -> p' = [p EXCEPT !.ip = i.nx, !.tries = Append(@, [c |-> i.tg, q |-> p.q, s |-> p.s])]
         [] i.cl = "tryend"   -> p' = [p EXCEPT !.ip = i.nx,
                                                !.tries = IF @ = <<>> THEN @ ELSE SubSeq(@, 1, Len(@) - 1)]
         [] i.cl \in {"ret", "throw", "error"} -> FALSE      \* no successor inside this function

(* an instruction inside a try block fails: control continues at the innermost catch point with the
   builder stacks as they were when the try block was entered *)
Exceptional ==
    /\ p.bad = "" /\ InBounds /\ p.tries # <<>>
    /\ Cur.op \notin Pure
    /\ LET t == p.tries[Len(p.tries)] IN p' = [p EXCEPT !.ip = t.c, !.q = t.q, !.s = t.s]

Next == Normal \/ Exceptional

(***************************************************************************)
(* Invariants                                                              *)
(***************************************************************************)
NoBrokenBuilder == p.bad = ""
OnBoundary == InBounds          \* every reached ip starts an instruction inside its own function
OperandsInRange ==
    InBounds => LET i == Cur IN
        /\ \A k \in 1 .. Len(i.rs) : i.rs[k] < Root(p.c, p.f).regs
        /\ \A k \in 1 .. Len(i.ks) : /\ i.ks[k][1] + 1 \in 1 .. Len(Chunks[p.c].ckinds)
                                     /\ Chunks[p.c].ckinds[i.ks[k][1] + 1] = i.ks[k][2]
        /\ i.cl # "error"
        /\ (i.cl \in {"jump", "cjump", "trystart"} => IndexAt(p.c, i.tg) # 0 \/ i.tg = Root(p.c, p.f).end)
(* at a return no sequence or string is half built *)
BalancedAtReturn == (InBounds /\ Cur.cl = "ret") => (p.q = 0 /\ p.s = 0)
(* the first instruction of every body declares its frame *)
FrameFirst == (InBounds /\ p.ip = Root(p.c, p.f).start) => Cur.cl = "frame"

(* every reachable point is printed once; the driver checks that all points with the same (c, f, ip) agree on
   the shape (q, s, catch points): "same stack shape at every join" *)
Emit == PrintT(<<"PT", ToJson([c |-> Chunks[p.c].id, f |-> p.f, ip |-> p.ip, q |-> p.q, s |-> p.s,
                                tries |-> [k \in 1 .. Len(p.tries) |-> p.tries[k].c]])>>)
=============================================================================
