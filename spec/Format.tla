------------------------------- MODULE Format -------------------------------
(***************************************************************************)
(* The formatter as seen from the abstract state (C11): a program is       *)
(* [ast (canonical syntax tree), com (comment sequence), txt (text)].      *)
(* Format is a stuttering step on ast and com, and idempotent on txt.      *)
(* Each recorded trace is  Original, Format(Original), Format(Format(..)). *)
(***************************************************************************)
EXTENDS Naturals, Sequences, TLC, Json, IOUtils

Traces == ndJsonDeserialize(IOEnv.TRACES)

FormatStep(s, t) == s.ast = t.ast /\ s.com = t.com                 \* meaning and comments are kept
Idempotent(s, t) == s.txt = t.txt                                  \* formatting formatted text changes nothing

Accepted(tr) == /\ Len(tr.events) = 3
                /\ FormatStep(tr.events[1], tr.events[2])
                /\ FormatStep(tr.events[2], tr.events[3])
                /\ Idempotent(tr.events[2], tr.events[3])

VARIABLES idx, phase
Init == idx \in 1 .. Len(Traces) /\ phase = "load"
Next == /\ phase = "load" /\ phase' = "done" /\ idx' = idx
        /\ (Accepted(Traces[idx]) \/ PrintT(<<"BAD", ToJson([id |-> Traces[idx].id])>>))
=============================================================================
