----------------------------- MODULE CoreCalls -----------------------------
(***************************************************************************)
(* Host safety (C06), input space of the core library.                     *)
(*                                                                         *)
(* Entries: the callable entries of the prelude's modules, dumped from the *)
(* runtime under test (so the list follows the tree).  Pool: names of      *)
(* boundary values; every call gets a fresh pool, and a name used twice in *)
(* one call denotes the same object, which is how a receiver is passed as  *)
(* its own argument.  TLC emits, per entry, every argument tuple up to     *)
(* MaxArity over Pool (arity 3 over the smaller Pool3).                    *)
(*                                                                         *)
(* Outcome alphabet of a call and of displaying its result: {value,        *)
(* error}.  There is no Panic outcome.                                     *)
(***************************************************************************)
EXTENDS Naturals, Sequences, TLC, Json, IOUtils

Entries  == ndJsonDeserialize(IOEnv.ENTRIES)
MaxArity == atoi(IOEnv.MAXARITY)

Outcomes == {"value", "error"}

Pool == {"nul", "tru", "n0", "n1", "nm1", "n64", "nbig", "nmax", "nmin", "half", "nan", "inf", "es", "a", "u", "t0", "t1", "t3",
         "l0", "l1", "l3", "m0", "m1", "r0", "r3", "rd", "ri", "rmax", "rmin", "it", "ex", "exs", "exr", "fn", "fn2", "fnerr", "mut", "shrink", "ml", "mk", "obj"}
Pool3 == {"nul", "n0", "nm1", "nbig", "half", "a", "u", "t3", "l3", "m1", "r3", "fn", "mut", "shrink"}

Tuples(n) == CASE n = 0 -> {<<>>}
               [] n = 1 -> {<<a>> : a \in Pool}
               [] n = 2 -> {<<a, b>> : a \in Pool, b \in Pool}
               [] n = 3 -> {<<a, b, c>> : a \in Pool3, b \in Pool3, c \in Pool3}

Calls == UNION {Tuples(n) : n \in 0 .. MaxArity}

\* aliasing is part of the space: some call passes its first argument again
AliasingCovered == MaxArity >= 2 => \E t \in Calls : Len(t) = 2 /\ t[1] = t[2] /\ t[1] = "l3"

VARIABLES e, phase
Init == e \in 1 .. Len(Entries) /\ phase = "emit"
Next == /\ phase = "emit" /\ phase' = "done" /\ e' = e
        /\ Assert(AliasingCovered, "the argument space lost the aliased-receiver calls")
        /\ PrintT(<<"CALLS", ToJson([m |-> Entries[e].m, f |-> Entries[e].f, args |-> Calls])>>)
=============================================================================
