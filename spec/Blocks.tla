------------------------------- MODULE Blocks -------------------------------
(***************************************************************************)
(* Block structure of Koto programs as typed line by line into an          *)
(* interactive front-end (guide: indented blocks for function bodies,      *)
(* if/else, loops, try/catch/finally, match/switch; cli REPL: "ask for     *)
(* more input when the parser reports an indentation error").              *)
(*                                                                         *)
(* A program is a sequence of lines [d |-> depth, c |-> class].  The       *)
(* variable `stack` is the nest of open constructs; an entry is            *)
(* [k |-> kind, full |-> BOOLEAN] where full means the block already       *)
(* contains at least one line.                                             *)
(*                                                                         *)
(* Property (C10): the text typed so far NeedsMore -- the front-end must   *)
(* ask for more input, the compiler reports an *indentation* error -- iff  *)
(* the last line is a header line, or ends in `=` or a binary operator.    *)
(* After a complete statement the error, if any, is never an indentation   *)
(* error.                                                                  *)
(***************************************************************************)
EXTENDS Naturals, Sequences, TLC, Json

CONSTANTS MaxLines, MaxDepth

VARIABLES lines, stack
vars == <<lines, stack>>

BodyKinds == {"fn", "if", "elseif", "else", "while", "until", "for", "loop", "try", "catch", "finally", "arm"}
Headers == {"fn", "if", "while", "until", "for", "loop", "try", "match", "switch"}

Depth == Len(stack)
Top == stack[Len(stack)]
(* a statement may be added at the current depth: at top level, or inside a block body *)
AcceptsStmt == IF stack = <<>> THEN TRUE ELSE Top.k \in BodyKinds
MarkFull(s) == IF s = <<>> THEN s ELSE [s EXCEPT ![Len(s)].full = TRUE]
AddLine(c) == lines' = Append(lines, [d |-> Depth, c |-> c])

Init == lines = <<>> /\ stack = <<>>

(* a complete statement *)
Stmt == /\ AcceptsStmt /\ Len(lines) < MaxLines
        /\ AddLine("stmt") /\ stack' = MarkFull(stack)

(* the header line of a block construct *)
Header(k) == /\ AcceptsStmt /\ Len(lines) < MaxLines /\ Depth < MaxDepth
             /\ AddLine(k) /\ stack' = Append(MarkFull(stack), [k |-> k, full |-> FALSE])

(* a line ending in `=` or in a binary operator: exactly one continuation line follows *)
OpenLine(c) == /\ AcceptsStmt /\ Len(lines) < MaxLines /\ Depth < MaxDepth
               /\ AddLine(c) /\ stack' = Append(MarkFull(stack), [k |-> "cont", full |-> FALSE])
Cont == /\ stack # <<>> /\ Top.k = "cont" /\ ~Top.full /\ Len(lines) < MaxLines
        /\ AddLine("cont") /\ stack' = SubSeq(stack, 1, Len(stack) - 1)

(* else-if / else / catch / finally replace the block they follow, at the same depth *)
Follow(k, preds) ==
    /\ stack # <<>> /\ Top.k \in preds /\ Top.full /\ Len(lines) < MaxLines
    /\ lines' = Append(lines, [d |-> Depth - 1, c |-> k])
    /\ stack' = [stack EXCEPT ![Len(stack)] = [k |-> k, full |-> FALSE]]

(* arms of match / switch *)
InArms == IF stack = <<>> THEN FALSE ELSE Top.k \in {"match", "switch"}
ArmInline == /\ InArms /\ Len(lines) < MaxLines
             /\ AddLine("arminline") /\ stack' = MarkFull(stack)
ArmHeader == /\ InArms /\ Len(lines) < MaxLines /\ Depth < MaxDepth
             /\ AddLine("armheader") /\ stack' = Append(MarkFull(stack), [k |-> "arm", full |-> FALSE])

(* leave the innermost block (no line is typed): only complete constructs can be left *)
Close == /\ stack # <<>> /\ Top.full /\ Top.k \notin {"try", "cont"}
         /\ stack' = SubSeq(stack, 1, Len(stack) - 1) /\ UNCHANGED lines

Next == \/ Stmt
        \/ \E k \in Headers : Header(k)
        \/ OpenLine("asgop") \/ OpenLine("binop") \/ Cont
        \/ Follow("elseif", {"if", "elseif"}) \/ Follow("else", {"if", "elseif"})
        \/ Follow("catch", {"try"}) \/ Follow("finally", {"catch"})
        \/ ArmInline \/ ArmHeader
        \/ Close

Spec == Init /\ [][Next]_vars

(***************************************************************************)
(* The property, as a function of the state.                               *)
(***************************************************************************)
LastClass == lines[Len(lines)].c
OpenClasses == Headers \cup {"elseif", "else", "catch", "finally", "armheader", "asgop", "binop"}
NeedsMore == lines # <<>> /\ LastClass \in OpenClasses
(* The property lists function, if/else, loop, try/catch/finally, match and switch headers and lines ending
   in `=` or an operator; an arm whose body is an indented block (`pattern then` at a line end) is not in
   the list, so the kind of error reported there is left open. *)
Listed == lines # <<>> /\ LastClass # "armheader"

(* NeedsMore is exactly "the innermost open block is still empty": the structural reading used by a
   front-end that tracks the nest.  Checked in every reachable state. *)
NeedsMoreIffEmptyBlock ==
    lines # <<>> => (NeedsMore <=> (stack # <<>> /\ ~Top.full /\ lines[Len(lines)].d = Depth - 1))

TypeOK == /\ Len(lines) <= MaxLines /\ Len(stack) <= MaxDepth
          /\ \A i \in 1 .. Len(lines) : lines[i].d \in 0 .. MaxDepth

(* A typed text is emitted once, when its last line has just been typed (not after silent Close steps):
   the stack then still has the depth the last line implies. *)
JustTyped == lines # <<>> /\
             LET l == lines[Len(lines)] IN
             IF l.c \in OpenClasses THEN Depth = l.d + 1
             ELSE IF l.c = "cont" THEN Depth = l.d - 1
             ELSE Depth = l.d

(* The typed text is a complete program: every open construct could be closed here. *)
Complete == \A i \in 1 .. Len(stack) : stack[i].full /\ stack[i].k \notin {"try", "cont"}

Emit == JustTyped => PrintT(<<"CASE", ToJson([lines |-> lines, needs_more |-> NeedsMore, complete |-> Complete, listed |-> Listed])>>)
=============================================================================
