---------------------------- MODULE KotoCoreRun ----------------------------
(***************************************************************************)
(* Oracle driver: one TLC behaviour per program.  Programs (JSON syntax    *)
(* trees) are read from the file named by the environment variable PROGS;  *)
(* for each the machine of KotoCore is run to completion inside one action *)
(* and the predicted observation is printed as one JSON line.              *)
(***************************************************************************)
EXTENDS KotoCore, Json, IOUtils

Progs == ndJsonDeserialize(IOEnv.PROGS)
Fuel == 15          \* 2^15 machine steps per program

VARIABLES idx, phase
vars == <<idx, phase>>

Init == idx \in 1 .. Len(Progs) /\ phase = "load"

Predict(i) == LET c == RunK(InitCfg(Progs[i].ast, {Progs[i].dev[k] : k \in 1 .. Len(Progs[i].dev)}), Fuel) IN
              [id |-> Progs[i].id] @@ Outcome(c)

Next == /\ phase = "load"
        /\ phase' = "done"
        /\ idx' = idx
        /\ PrintT(<<"PRED", ToJson(Predict(idx))>>)

Spec == Init /\ [][Next]_vars
=============================================================================
