INIT Init
NEXT Next
