CONSTANTS
  MaxLen = 4
  Ops = {"r_inc", "r_push", "r_probe", "f_throw", "f_each", "f_gen", "f_str", "f_seq", "f_type", "f_arity", "f_import", "f_op", "f_nested_try", "f_call", "f_compile", "f_indent", "c_bump", "c_boom", "c_deep", "c_few", "c_many", "c_native", "c_notfn", "c_missing", "c_gen", "d_lst", "d_x", "d_notfn", "d_arity", "d_throw"}
INIT Init
NEXT Next
INVARIANTS TypeOK Emit
