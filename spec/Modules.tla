------------------------------- MODULE Modules -------------------------------
(***************************************************************************)
(* The module system (guide: Modules, import, export, @main, Module Paths, *)
(* Testing / Module Tests) as a state machine over                         *)
(*   cache   per module: "absent" | "inprogress" | "loaded"                *)
(*   exp     exports of every loaded module (name -> value)                *)
(*   out     the log of printed markers                                    *)
(* A configuration fixes a module graph on Mods: for every module its      *)
(* ordered dependency list (cycles and self-imports included), the import  *)
(* form it uses, where it lives (m.koto, m/main.koto or both), whether it  *)
(* has @test / @main, where it fails (body / test / main / nowhere) and    *)
(* whether it guards its imports with try/catch.  The host runs two        *)
(* scripts, one after the other, on ONE runtime: each imports its root     *)
(* modules inside try/catch.                                               *)
(*                                                                         *)
(* Load is the (deterministic) semantics of one import; Runs computes the  *)
(* observable log.  Properties checked on every configuration:             *)
(*   RunOnce            top level, tests and @main of a module appear at   *)
(*                      most once in the log while it stays loaded         *)
(*   OrderTopTestsMain  top < tests < main for every load                  *)
(*   CycleIsError       an import of a module that is in progress fails    *)
(*   FailedLeavesNothing after a failed load the module is absent again    *)
(***************************************************************************)
EXTENDS Naturals, Sequences, FiniteSets, TLC, Json

CONSTANTS Mods

Forms == <<"import", "from", "fromas", "star">>

(* configuration record:
   deps[m] (Seq(Mods)), form[m], where[m] ("file"|"dir"|"both"), tm[m] ("none"|"test"|"main"|"both"),
   fail[m] ("none"|"body"|"test"|"main"), guard[m] (BOOLEAN), tests (run_import_tests), roots1, roots2 *)

Val(m) == CASE m = "a" -> 1 [] m = "b" -> 2 [] m = "c" -> 3 [] OTHER -> 9
Variant(cfg, m) == IF cfg.where[m] = "dir" THEN "dir" ELSE "file"     \* m.koto before m/main.koto

InitState == [cache |-> [m \in Mods |-> "absent"], out |-> <<>>, loads |-> <<>>]

Say(st, s) == [st EXCEPT !.out = Append(@, s)]

(* Load(cfg, st, m, depth): result [st, ok].  The body of module m, in order:
     print top; import each dependency (guarded or not); export; print what it sees; fail in body?;
     tests (if enabled and present); @main (if present). *)
RECURSIVE Load(_, _, _, _)
RECURSIVE LoadDeps(_, _, _, _, _)
RECURSIVE Import(_, _, _, _, _)

(* guide, Module Paths: the module is looked up next to the importing file.  A module that lives in
   m/main.koto therefore sees only its own directory, which holds no other module here: its imports fail with
   "module not found" and run nothing. *)
Import(cfg, st, m, depth, from) ==
    IF from # "host" /\ Variant(cfg, from) = "dir" THEN [st |-> st, ok |-> FALSE]
    ELSE IF st.cache[m] = "inprogress" THEN [st |-> st, ok |-> FALSE]                \* CycleIsError
    ELSE IF st.cache[m] = "loaded" THEN [st |-> st, ok |-> TRUE]                \* cached: runs nothing
    ELSE IF depth > 6 THEN [st |-> st, ok |-> FALSE]
    ELSE Load(cfg, st, m, depth)

LoadDeps(cfg, st, m, i, depth) ==
    IF i > Len(cfg.deps[m]) THEN [st |-> st, ok |-> TRUE]
    ELSE LET d == cfg.deps[m][i]
             r == Import(cfg, st, d, depth + 1, m) IN
         IF r.ok THEN LoadDeps(cfg, Say(r.st, m \o " sees " \o d \o "=" \o ToString(Val(d))), m, i + 1, depth)
         ELSE IF cfg.guard[m] THEN LoadDeps(cfg, Say(r.st, m \o " caught " \o d), m, i + 1, depth)
         ELSE [st |-> r.st, ok |-> FALSE]

Load(cfg, st, m, depth) ==
    LET tag == m \o "@" \o Variant(cfg, m)
        s0 == Say([st EXCEPT !.cache[m] = "inprogress", !.loads = Append(@, <<"start", m>>)], tag \o ":top")
        r1 == LoadDeps(cfg, s0, m, 1, depth)
        Fail(s) == [st |-> [s EXCEPT !.cache[m] = "absent", !.loads = Append(@, <<"fail", m>>)], ok |-> FALSE]      \* FailedLeavesNothing
    IN IF ~r1.ok THEN Fail(r1.st)
       ELSE LET s1 == Say(r1.st, tag \o ":exported") IN
            IF cfg.fail[m] = "body" THEN Fail(s1)
            ELSE LET hasTest == cfg.tests /\ cfg.tm[m] \in {"test", "both"}
                     s2 == IF hasTest THEN Say(s1, tag \o ":test") ELSE s1 IN
                 IF hasTest /\ cfg.fail[m] = "test" THEN Fail(s2)
                 ELSE LET hasMain == cfg.tm[m] \in {"main", "both"}
                          s3 == IF hasMain THEN Say(s2, tag \o ":main") ELSE s2 IN
                      IF hasMain /\ cfg.fail[m] = "main" THEN Fail(s3)
                      ELSE [st |-> [s3 EXCEPT !.cache[m] = "loaded", !.loads = Append(@, <<"ok", m>>)], ok |-> TRUE]

(* A host script: import each root inside try/catch and report. *)
RECURSIVE RunRoots(_, _, _, _)
RunRoots(cfg, st, roots, i) ==
    IF i > Len(roots) THEN st
    ELSE LET r == Import(cfg, st, roots[i], 0, "host") IN
         RunRoots(cfg, Say(r.st, IF r.ok THEN "host got " \o roots[i] \o "=" \o ToString(Val(roots[i]))
                                 ELSE "host caught " \o roots[i]), roots, i + 1)

Runs(cfg) == LET s1 == RunRoots(cfg, InitState, cfg.roots1, 1)
                 s2 == RunRoots(cfg, Say(s1, "--second run--"), cfg.roots2, 1) IN s2

(***************************************************************************)
(* Properties of the semantics itself, checked by TLC on every generated   *)
(* configuration.                                                          *)
(***************************************************************************)
Count(seq, x) == Cardinality({i \in 1 .. Len(seq) : seq[i] = x})
FirstIdx(seq, x) == LET S == {i \in 1 .. Len(seq) : seq[i] = x} IN IF S = {} THEN 0 ELSE CHOOSE i \in S : \A j \in S : i <= j

(* once a module has been loaded successfully it is never run again on this runtime *)
RunOnce(cfg, st) ==
    \A i \in 1 .. Len(st.loads) : \A j \in (i + 1) .. Len(st.loads) :
        ~(st.loads[i][1] = "ok" /\ st.loads[j][1] = "start" /\ st.loads[i][2] = st.loads[j][2])
OrderTopTestsMain(cfg, st) ==
    \A m \in {x \in Mods : Cardinality({i \in 1 .. Len(st.loads) : st.loads[i] = <<"start", x>>}) = 1} : LET tag == m \o "@" \o Variant(cfg, m)
                        t == FirstIdx(st.out, tag \o ":top")  x == FirstIdx(st.out, tag \o ":exported")
                        e == FirstIdx(st.out, tag \o ":test")  n == FirstIdx(st.out, tag \o ":main") IN
                    /\ (x # 0 => t # 0 /\ t < x) /\ (e # 0 => x # 0 /\ x < e)
                    /\ (n # 0 => x # 0 /\ x < n) /\ (e # 0 /\ n # 0 => e < n)
NothingInProgressAtEnd(st) == \A m \in Mods : st.cache[m] # "inprogress"
FailedAbsent(cfg, st) == \A m \in Mods : (cfg.fail[m] # "none" /\ ~(cfg.fail[m] = "test" /\ (~cfg.tests \/ cfg.tm[m] \notin {"test", "both"}))
                                           /\ ~(cfg.fail[m] = "main" /\ cfg.tm[m] \notin {"main", "both"}))
                                          => st.cache[m] # "loaded"

(***************************************************************************)
(* Generation: TLC enumerates dependency lists x failure placement; the    *)
(* remaining attributes are a deterministic mix of the configuration       *)
(* number (every value of every attribute occurs).                         *)
(***************************************************************************)
ModSeq == <<"a", "b", "c">>
DepChoices(m) == {<<>>} \cup {<<d>> : d \in Mods} \cup {<<p[1], p[2]>> : p \in {q \in Mods \X Mods : q[1] # q[2]}}
FailChoices == {"none", "body", "test", "main"}

VARIABLES cfg, done
Pick(seq, k) == seq[(k % Len(seq)) + 1]

Init == /\ done = FALSE
        /\ \E da \in DepChoices("a"), db \in DepChoices("b"), dc \in DepChoices("c"),
              fa \in FailChoices, fb \in FailChoices, k \in 0 .. 5 :
            cfg = [deps |-> [m \in Mods |-> IF m = "a" THEN da ELSE IF m = "b" THEN db ELSE dc],
                   fail |-> [m \in Mods |-> IF m = "a" THEN fa ELSE IF m = "b" THEN fb ELSE Pick(<<"none", "none", "main", "body", "none", "test">>, k)],
                   form |-> [m \in Mods |-> Pick(Forms, k + Val(m) + Len(da) + 2 * Len(db))],
                   where |-> [m \in Mods |-> Pick(<<"file", "dir", "both">>, k + Val(m) + Len(dc))],
                   tm |-> [m \in Mods |-> Pick(<<"both", "none", "main", "test", "both">>, k + 2 * Val(m) + Len(da))],
                   guard |-> [m \in Mods |-> (k + Val(m) + Len(db)) % 3 = 0],
                   tests |-> (k % 2 = 0),
                   roots1 |-> Pick(<<<<"a">>, <<"a", "b">>, <<"b", "a">>, <<"c", "a">>, <<"a", "a">>, <<"b">>>>, k),
                   roots2 |-> Pick(<<<<"a">>, <<"b", "a">>, <<"a", "c">>, <<"c">>, <<"a", "b", "c">>, <<"b", "b">>>>, k + Len(da))]

Next == /\ ~done /\ done' = TRUE /\ cfg' = cfg
        /\ LET st == Runs(cfg) IN
           /\ Assert(RunOnce(cfg, st), <<"RunOnce", cfg>>)
           /\ Assert(OrderTopTestsMain(cfg, st), <<"OrderTopTestsMain", cfg>>)
           /\ Assert(NothingInProgressAtEnd(st), <<"NothingInProgressAtEnd", cfg>>)
           /\ Assert(FailedAbsent(cfg, st), <<"FailedAbsent", cfg>>)
           /\ PrintT(<<"CFG", ToJson([cfg |-> cfg, out |-> st.out, cache |-> st.cache])>>)
=============================================================================
