------------------------------ MODULE LexGen ------------------------------
(***************************************************************************)
(* Host safety (C06), input space of the front end.                        *)
(*                                                                         *)
(* The lexer is a push-down automaton over modes (code, string literal,    *)
(* template expression, format options, raw string, nested comment, inline *)
(* map, parentheses); the parser and the formatter follow it.  Random text *)
(* rarely gets past the first mode.  This module is that automaton as a    *)
(* generator: a state is the text so far (a sequence of fragments) with    *)
(* the stack of open modes; an action appends one fragment that is         *)
(* meaningful in the innermost mode.  TLC enumerates every path of at most *)
(* Depth fragments from each start context and emits, for each state, the  *)
(* text as it stands (cut off inside whatever is open) and the text with   *)
(* everything open closed again.                                           *)
(*                                                                         *)
(* The outcome alphabet of every front-end stage is {value, error}: there  *)
(* is no Panic and no Hang outcome, so a run that ends any other way is    *)
(* not a behaviour of the specification.                                   *)
(***************************************************************************)
EXTENDS Naturals, Sequences, TLC, Json, IOUtils

\* non-ASCII characters are written U+XXXX; in fragments (the driver substitutes them)

Depth == atoi(IOEnv.DEPTH)
Start == IOEnv.START

Outcomes == {"value", "error"}

F(t, e) == [t |-> t, e |-> e]

CodeLike == {"code", "tmpl", "map", "paren"}

\* fragments that mean something in code-like modes
CodeFrags ==
    {F(x, "") : x \in {"a", "1", " ", "\n", "\n  ", "\r\n", "\t", "+", "-", ".", ",", ":", "=", "==", "|", "[", "]", "..", "...",
                       "->", "@", "?", "$", "U+00E9;", "\\", "_", "0x", "1e", "1.", "if ", " then ", " else ", "match ", "for ", " in ",
                       "not ", " and ", "return ", "try", "catch ", "import ", "from ", "export ", " as ", "|x| ", "# c\n", "*",
                       "/", "%", "^", "<", ">=", "!=", "+=", "loop", "while ", "until ", "switch", "throw ", "yield ", "null",
                       "true", "self", "let ", "x: Number", "break", "continue", "finally", "debug ", ";", "r", "U+1F600;"}}
    \cup {F("(", "push:paren"), F(")", "close:paren"), F("{", "push:map"), F("}", "close:brace"),
          F("'", "push:sq"), F("\"", "push:dq"), F("r#'", "push:raw"), F("#-", "push:cm")}

\* inside a quoted string literal
StrFrags(q) ==
    {F(x, "") : x \in {"x", " ", "U+00E9;", "U+1F600;", "\\n", "\\u{41}", "\\u{", "\\u{110000}", "\\x4", "\\x41", "\\xff", "\\\n  ", "\\'", "\\\"",
                       "\\{", "}", "\n", "\r\n", "\\\r\n ", "$", "#", "\\", "\\q", "\\U+00E9;", "\\U+65E5;x", "\\u{fffffffff}", "\\u{ffffffff}"}}
    \cup {F("{", "push:tmpl")}
    \cup {F("'", IF q = "sq" THEN "pop" ELSE ""), F("\"", IF q = "dq" THEN "pop" ELSE "")}

\* format options after the `:` of a template expression
FmtFrags == {F(x, "") : x \in {"_", "<", "^", ">", "0", "8", ".", "2", "x", "?", "e", "U+00E9;", "U+1F600;", "U+0301;", "{", "\n", "'", " ", ":", "-"}}
            \cup {F("}", "pop")}

RawFrags == {F(x, "") : x \in {"x", "'", "{", "\\", "\n", "\r\n", "\"", "#", "U+00E9;"}} \cup {F("'#", "pop")}

CmFrags == {F(x, "") : x \in {"x", "\n", "\r\n", "\r", "-", "#", "U+00E9;", "'"}} \cup {F("#-", "push:cm"), F("-#", "pop")}

Frags(mode) ==
    CASE mode \in {"code", "map", "paren"} -> CodeFrags
      [] mode = "tmpl" -> CodeFrags \cup {F(":", "switch:fmt")}
      [] mode \in {"sq", "dq"} -> StrFrags(mode)
      [] mode = "fmt" -> FmtFrags
      [] mode = "raw" -> RawFrags
      [] mode = "cm" -> CmFrags

Closer(mode) == CASE mode = "sq" -> "'" [] mode = "dq" -> "\"" [] mode \in {"tmpl", "fmt", "map"} -> "}" [] mode = "raw" -> "'#"
                  [] mode = "cm" -> "-#" [] mode = "paren" -> ")" [] mode = "code" -> ""

Top(st) == st[Len(st)]
Pop(st) == SubSeq(st, 1, Len(st) - 1)

\* the stack after a fragment
After(st, f) ==
    CASE f.e = "" -> st
      [] f.e = "pop" -> Pop(st)
      [] f.e = "push:paren" -> Append(st, "paren")
      [] f.e = "push:map" -> Append(st, "map")
      [] f.e = "push:sq" -> Append(st, "sq")
      [] f.e = "push:dq" -> Append(st, "dq")
      [] f.e = "push:raw" -> Append(st, "raw")
      [] f.e = "push:cm" -> Append(st, "cm")
      [] f.e = "push:tmpl" -> Append(st, "tmpl")
      [] f.e = "switch:fmt" -> Append(Pop(st), "fmt")
      [] f.e = "close:paren" -> IF Top(st) = "paren" THEN Pop(st) ELSE st
      [] f.e = "close:brace" -> IF Top(st) \in {"map", "tmpl"} THEN Pop(st) ELSE st

\* start contexts: the text that leads there and the stack of open modes
Starts == [code   |-> [text |-> <<>>, stack |-> <<"code">>],
           sq     |-> [text |-> <<"x = '">>, stack |-> <<"code", "sq">>],
           dq     |-> [text |-> <<"f \"a">>, stack |-> <<"code", "dq">>],
           tmpl   |-> [text |-> <<"'{">>, stack |-> <<"code", "sq", "tmpl">>],
           fmt    |-> [text |-> <<"a = 'U+00E9;U+65E5;xU+1F600;'\nb = 3.5\n'{b:8.1}{a:">>, stack |-> <<"code", "sq", "fmt">>],
           tmplsq |-> [text |-> <<"\"{'">>, stack |-> <<"code", "dq", "tmpl", "sq">>],
           raw    |-> [text |-> <<"r#'">>, stack |-> <<"code", "raw">>],
           cm     |-> [text |-> <<"a #-">>, stack |-> <<"code", "cm">>],
           block  |-> [text |-> <<"f = |x|\n  if x\n    ">>, stack |-> <<"code">>],
           map    |-> [text |-> <<"m = {a: ">>, stack |-> <<"code", "map">>],
           call   |-> [text |-> <<"f(1, ">>, stack |-> <<"code", "paren">>]]

RECURSIVE CloseAll(_)
CloseAll(st) == IF Len(st) <= 1 THEN <<>> ELSE <<Closer(Top(st))>> \o CloseAll(Pop(st))

VARIABLES text, stack, phase
vars == <<text, stack, phase>>

Init == /\ text = Starts[Start].text
        /\ stack = Starts[Start].stack
        /\ phase = "grow"

\* every state emits its one-fragment extensions, each as it stands and closed again
Emit == LET exts == {[f |-> f, st |-> After(stack, f)] : f \in Frags(Top(stack))} IN
        PrintT(<<"TEXTS", ToJson({[cut |-> text \o <<x.f.t>>, closed |-> text \o <<x.f.t>> \o CloseAll(x.st)] : x \in exts})>>)

Grow == /\ phase = "grow"
        /\ Len(text) - Len(Starts[Start].text) < Depth - 1
        /\ \E f \in Frags(Top(stack)) :
              /\ text' = Append(text, f.t)
              /\ stack' = After(stack, f)
              /\ Len(stack') >= 1
        /\ UNCHANGED phase

Report == /\ phase = "grow" /\ phase' = "emitted" /\ UNCHANGED <<text, stack>> /\ Emit

Next == Grow \/ Report

\* the automaton never closes what is not open, and code is always at the bottom
StackOk == Len(stack) >= 1 /\ stack[1] = "code"
=============================================================================
