----------------------------- MODULE MC_KotoVm -----------------------------
(***************************************************************************)
(* Design-level model checking of the VM's control state.                  *)
(*                                                                         *)
(* KotoVm.tla states the rules as a monitor over hook events (Apply).      *)
(* This module is the other half: a small operational model of what        *)
(* crates/runtime/src/vm.rs does -- frames with catch points and execution *)
(* barriers, nested executions started by native code, the builder stacks, *)
(* registers, unwinding, the execution deadline -- that PRODUCES events in *)
(* the order the hooks emit them (checked against recorded executions).    *)
(* Every event produced is fed to KotoVm!Apply; the invariant Accepted     *)
(* says that the rules hold on every behaviour of the design.              *)
(*                                                                         *)
(* Bug (a set of names) switches on behaviours the code once had; each     *)
(* must be rejected by the rule named (the monitor has teeth):             *)
(*   "stale_catch"   break/continue leaves a try block without TryEnd      *)
(*                   (T1)              -> NoDuplicateTry / CaughtWithinTry *)
(*   "timeout_catch" a timeout coming out of a nested execution may be     *)
(*                   caught (X1)       -> TimeoutNeverCaught               *)
(*   "timeout_text"  ... or comes back as an ordinary error (G1/X1)        *)
(*                                     -> TimeoutStaysTimeout              *)
(*   "builders"      builder stacks are not restored at a catch (B1)       *)
(*                                     -> BuildersRestoredAtCatch          *)
(*   "reg_leak"      a failed run leaves registers behind (R1)             *)
(*                                     -> Balanced                         *)
(*   "reg_growth"    each caught error leaves a register in the frame (L1) *)
(*                                     -> NoMonotoneGrowth                 *)
(*   "stale_deadline" the deadline of a run that ended with an error stays  *)
(*                   armed (a seeded C08 change) -> RearmedPerRun          *)
(*   "no_deadline"   a nested execution does not poll the deadline (the    *)
(*                   seeded C08 changes) -> liveness TimeoutEventuallyFires*)
(***************************************************************************)
EXTENDS KotoVm, IOUtils

Bug == IF "BUG" \in DOMAIN IOEnv /\ IOEnv.BUG # "" THEN {IOEnv.BUG} ELSE {}
MaxDepth  == 3
MaxEvents == atoi(IOEnv.MAXEVENTS)
Limit     == IOEnv.LIMIT = "1"         \* an execution limit is configured
Live      == IOEnv.LIVE = "1"          \* liveness run: the monitor is off and nothing unbounded is produced
Deadline  == 2

VARIABLES frames,   \* the VM's call stack: [bar, catches: Seq([t, c, q, s]), r (registers when it was pushed)]
          r, q, t,  \* registers, sequence builders, string builders
          ip,       \* next unused instruction address
          tries,    \* try ips that exist in the code of the running frames (for loops that enter a try block again)
          time,     \* the clock the deadline polls read, up to Deadline
          spent,    \* clock ticks since the current run started (what the run has really used)
          mon,      \* the monitor: KotoVm state
          n,        \* events produced
          errs      \* errors raised so far (bound)
vars == <<frames, r, q, t, ip, tries, time, spent, mon, n, errs>>

Ev(name, d, a, x, c, s) == [e |-> name, vm |-> 1, d |-> d, r |-> r, b |-> 0, q |-> q, t |-> t, c |-> c, a |-> a, x |-> x, s |-> s]
With(e, rr, qq, tt) == [e EXCEPT !.r = rr, !.q = qq, !.t = tt]

RECURSIVE FoldEv(_, _, _)
FoldEv(s, evs, i) == IF i > Len(evs) \/ ~s.ok THEN s ELSE FoldEv(Apply(s, evs[i]), evs, i + 1)
Feed(evs) == IF Live THEN mon' = mon /\ n' = n ELSE mon' = FoldEv(mon, evs, 1) /\ n' = n + Len(evs)

Idle == frames = <<>>
Depth == Len(frames)
TopF == frames[Depth]
\* lex: how many try blocks the frame's code position is inside; q0, t0: the builder stacks when the frame was pushed
NewF(bar) == [bar |-> bar, catches |-> <<>>, r |-> r, lex |-> 0, q0 |-> q, t0 |-> t]

Init == /\ frames = <<>> /\ r = 0 /\ q = 0 /\ t = 0 /\ ip = 1 /\ tries = {} /\ time = 0 /\ spent = 0
        /\ mon = InitState /\ n = 0 /\ errs = 0

(* run(): the activation opens, its frame is pushed, execute_instructions is entered *)
Run == /\ Idle /\ n < MaxEvents
       /\ frames' = <<[bar |-> TRUE, catches |-> <<>>, r |-> 0, lex |-> 0, q0 |-> 0, t0 |-> 0]>>
       /\ r' = 1
       /\ Feed(<<Ev("RunEnter", 0, 0, 0, 0, ""), With(Ev("FramePush", 1, 0, 0, 0, ""), 1, q, t),
                 With(Ev("ExecEnter", 1, 1, 0, 0, ""), 1, q, t)>>)
       \* the limit is armed anew for every run ("stale_deadline": not after a run that ended with an error)
       /\ time' = (IF "stale_deadline" \in Bug /\ errs > 0 THEN time ELSE 0) /\ spent' = 0
       /\ UNCHANGED <<q, t, ip, tries, errs>>

Busy == ~Idle /\ n < MaxEvents
\* the instruction loop polls the deadline before every instruction: past the deadline nothing else runs.
\* With "no_deadline" a nested execution (a barrier frame above the root) does not poll.
Polls == Limit /\ ~("no_deadline" \in Bug /\ Depth > 1 /\ \E k \in 2 .. Depth : frames[k].bar)
MayRun == Busy /\ ~(Polls /\ time >= Deadline)

Call == /\ MayRun /\ Depth < MaxDepth
        /\ frames' = Append(frames, NewF(FALSE)) /\ r' = r + 3
        /\ Feed(<<With(Ev("FramePush", Depth + 1, 0, 0, 0, ""), r + 3, q, t)>>)
        /\ UNCHANGED <<q, t, ip, tries, time, spent, errs>>

(* a native function (operator, functor) calls back into the VM: a frame with an execution barrier *)
NativeCall == /\ MayRun /\ Depth < MaxDepth
              /\ frames' = Append(frames, NewF(TRUE)) /\ r' = r + 3
              /\ Feed(<<With(Ev("FramePush", Depth + 1, 0, 0, 0, ""), r + 3, q, t),
                        With(Ev("ExecEnter", Depth + 1, 1, 0, 0, ""), r + 3, q, t)>>)
              /\ UNCHANGED <<q, t, ip, tries, time, spent, errs>>

(* the top frame returns *)
Return == /\ MayRun /\ q = TopF.q0 /\ t = TopF.t0        \* compiled code leaves the builders as it found them
          /\ LET f == TopF
                 pop == With(Ev("FramePop", Depth - 1, IF f.bar THEN 1 ELSE 0, Len(f.catches), 0, ""), f.r, q, t) IN
             /\ frames' = Front(frames) /\ r' = f.r
             /\ Feed(IF Depth = 1 THEN <<pop, With(Ev("ExecExit", 0, 1, 0, 0, ""), f.r, q, t), With(Ev("RunExit", 0, 1, 0, 0, ""), f.r, q, t)>>
                     ELSE IF f.bar THEN <<pop, With(Ev("ExecExit", Depth - 1, 1, 0, 0, ""), f.r, q, t)>>
                     ELSE <<pop>>)
          /\ tries' = IF Depth = 1 THEN {} ELSE tries
          /\ UNCHANGED <<q, t, ip, time, spent, errs>>

TryStartA == /\ MayRun /\ Len(TopF.catches) < 2 /\ ~Live
             /\ \E a \in {ip} \cup tries :        \* a new try block, or a loop coming round to one it has been in before
                   /\ ~(\E i \in 1 .. Len(TopF.catches) : TopF.catches[i].t = a /\ ~("stale_catch" \in Bug))
                   /\ frames' = [frames EXCEPT ![Depth].catches = Append(@, [t |-> a, c |-> a + 10, q |-> q, s |-> t]),
                                                ![Depth].lex = @ + 1]
                   /\ Feed(<<Ev("TryStart", Depth, a, a + 10, Len(TopF.catches) + 1, "")>>)
                   /\ ip' = IF a = ip THEN ip + 20 ELSE ip
                   /\ tries' = tries \cup {a}
             /\ UNCHANGED <<r, q, t, time, spent, errs>>

(* the try block ends normally -- or is left by break/continue: the compiler emits TryEnd before the jump.
   With "stale_catch" the jump leaves the catch point registered and nothing is emitted. *)
TryEndA == /\ MayRun /\ TopF.catches # <<>> /\ TopF.lex > 0
           /\ q = Last(TopF.catches).q /\ t = Last(TopF.catches).s
           /\ \/ /\ frames' = [frames EXCEPT ![Depth].catches = Front(@), ![Depth].lex = @ - 1]
                 /\ Feed(<<Ev("TryEnd", Depth, 0, 0, Len(TopF.catches) - 1, "")>>)
              \/ /\ "stale_catch" \in Bug /\ frames' = [frames EXCEPT ![Depth].lex = @ - 1] /\ Feed(<<>>)
           /\ UNCHANGED <<r, q, t, ip, tries, time, spent, errs>>

Builder == /\ MayRun
           /\ \/ q < 1 /\ q' = q + 1 /\ t' = t
              \/ q > 0 /\ q' = q - 1 /\ t' = t
              \/ t < 1 /\ t' = t + 1 /\ q' = q
              \/ t > 0 /\ t' = t - 1 /\ q' = q
           /\ Feed(<<>>)
           /\ UNCHANGED <<frames, r, ip, tries, time, spent, errs>>

(* work that changes nothing the monitor sees (a loop spinning): temp registers come and go *)
Spin == /\ MayRun /\ Depth > 0 /\ Live
        /\ r' = (IF r = TopF.r + 4 THEN TopF.r + 3 ELSE TopF.r + 4)
        /\ Feed(<<>>) /\ UNCHANGED <<frames, q, t, ip, tries, time, spent, errs>>

Tick == /\ Busy /\ Limit /\ time < Deadline /\ time' = time + 1 /\ spent' = spent + 1
        /\ Feed(<<>>) /\ UNCHANGED <<frames, r, q, t, ip, tries, errs>>

(***************************************************************************)
(* An instruction fails with an error of class cls at address at.          *)
(* Unwind(k, ...) produces the events of pop_call_stack_on_error from      *)
(* frame k downwards and the resulting VM state.                           *)
(***************************************************************************)
Catchable(cls, nested) == cls # "timeout" \/ ("timeout_catch" \in Bug /\ nested)

\* result: [evs, frames, r, q, t]
RECURSIVE Unwind(_, _, _, _, _, _, _, _)
Unwind(fs, k, cls, at, evs, rr, nested, grow) ==
    LET f == fs[k] IN
    IF Catchable(cls, nested) /\ f.catches # <<>> THEN
        \* delivered to the innermost catch point of frame k; the handler starts by clearing its catch point
        LET cp == Last(f.catches)
            q2 == IF "builders" \in Bug THEN q ELSE cp.q
            t2 == IF "builders" \in Bug THEN t ELSE cp.s
            r2 == f.r + 3 + grow
            fs2 == [SubSeq(fs, 1, k) EXCEPT ![k].catches = Front(@), ![k].lex = Len(f.catches) - 1] IN
        [evs |-> evs \o <<[e |-> "Caught", vm |-> 1, d |-> k, r |-> r2, b |-> 0, q |-> q2, t |-> t2, c |-> Len(f.catches), a |-> cp.c, x |-> at, s |-> ""],
                          [e |-> "TryEnd", vm |-> 1, d |-> k, r |-> r2, b |-> 0, q |-> q2, t |-> t2, c |-> Len(f.catches) - 1, a |-> cp.c, x |-> 0, s |-> ""]>>,
         frames |-> fs2, r |-> r2, q |-> q2, t |-> t2]
    ELSE IF f.bar THEN
        \* the error leaves this execute_instructions
        LET out == <<[e |-> "Propagate", vm |-> 1, d |-> k, r |-> rr, b |-> 0, q |-> q, t |-> t, c |-> 0, a |-> 0, x |-> 0, s |-> cls],
                     [e |-> "ExecExit", vm |-> 1, d |-> k, r |-> rr, b |-> 0, q |-> q, t |-> t, c |-> 0, a |-> 0, x |-> 0, s |-> ""]>> IN
        IF k = 1 THEN
            \* run() fails: its frame is dropped, the registers are truncated (not with "reg_leak")
            LET r3 == IF "reg_leak" \in Bug THEN rr ELSE 0 IN
            [evs |-> evs \o out \o <<[e |-> "FramePop", vm |-> 1, d |-> 0, r |-> rr, b |-> 0, q |-> q, t |-> t, c |-> 0, a |-> 1, x |-> Len(f.catches), s |-> ""],
                                     [e |-> "RunExit", vm |-> 1, d |-> 0, r |-> r3, b |-> 0, q |-> 0, t |-> 0, c |-> 0, a |-> 0, x |-> 0, s |-> ""]>>,
             frames |-> <<>>, r |-> r3, q |-> 0, t |-> 0]
        ELSE
            \* the native caller pops the barrier frame and the error continues in the frame below, at the
            \* instruction that made the native call (inside that frame's innermost try block, if it has one)
            LET below == fs[k - 1]
                at2 == IF below.catches # <<>> /\ below.lex = Len(below.catches) THEN Last(below.catches).t + 2 ELSE ip + 1
                cls2 == IF cls = "timeout" /\ "timeout_text" \in Bug THEN "thrown" ELSE cls
                pop == [e |-> "FramePop", vm |-> 1, d |-> k - 1, r |-> f.r, b |-> 0, q |-> q, t |-> t, c |-> 0, a |-> 1, x |-> Len(f.catches), s |-> ""]
                thr == [e |-> "Throw", vm |-> 1, d |-> k - 1, r |-> f.r, b |-> 0, q |-> q, t |-> t, c |-> 0, a |-> at2, x |-> 0, s |-> cls2] IN
            Unwind(SubSeq(fs, 1, k - 1), k - 1, cls2, at2, evs \o out \o <<pop, thr>>, f.r, TRUE, grow)
    ELSE
        \* an ordinary frame without a catch point: popped
        LET pop == [e |-> "FramePop", vm |-> 1, d |-> k - 1, r |-> rr, b |-> 0, q |-> q, t |-> t, c |-> 0, a |-> 0, x |-> Len(f.catches), s |-> ""]
            below == fs[k - 1]
            at2 == IF below.catches # <<>> /\ below.lex = Len(below.catches) THEN Last(below.catches).t + 2 ELSE ip + 1 IN
        Unwind(SubSeq(fs, 1, k - 1), k - 1, cls, at2, evs \o <<pop>>, rr, nested, grow)

Fail(cls) ==
    /\ Busy /\ (errs < 2 \/ Live)
    /\ IF cls = "timeout" THEN Polls /\ time >= Deadline ELSE MayRun /\ ~Live
    /\ LET \* the failing instruction lies inside the innermost try block only if the code position is really inside it
           at == IF TopF.catches # <<>> /\ TopF.lex = Len(TopF.catches) THEN Last(TopF.catches).t + 1 ELSE ip
           thr == Ev("Throw", Depth, at, 0, 0, cls)
           u == Unwind(frames, Depth, cls, at, <<thr>>, r, FALSE, IF "reg_growth" \in Bug THEN errs ELSE 0) IN
       /\ frames' = u.frames /\ r' = u.r /\ q' = u.q /\ t' = u.t
       /\ Feed(u.evs)
       /\ tries' = IF u.frames = <<>> THEN {} ELSE tries
    /\ errs' = IF Live THEN errs ELSE errs + 1
    /\ UNCHANGED <<ip, time, spent>>

(* the host looks at the idle runtime *)
ObserveA == /\ Idle /\ n < MaxEvents /\ n > 0
            /\ Feed(<<Ev("Observe", 0, 0, 0, 0, "")>>)
            /\ UNCHANGED <<frames, r, q, t, ip, tries, time, spent, errs>>

Next == Run \/ Call \/ NativeCall \/ Return \/ TryStartA \/ TryEndA \/ Builder \/ Spin \/ Tick
        \/ Fail("thrown") \/ Fail("timeout") \/ ObserveA

(* every behaviour of the design is accepted by the rules of KotoVm.tla *)
Accepted == mon.ok

(* the model's own view agrees with the monitor's (the two halves describe the same machine) *)
SameShape == mon.ok /\ VmIndex(mon, 1) # 0 => Len(Vm(mon, 1).frames) = Depth

(* terminating scripts are unaffected by the limit: the clock a run's deadline polls read is the time this run has used *)
RearmedPerRun == time = spent

(* Liveness: with an execution limit configured, a run does not go on for ever *)
Fairness == WF_vars(Tick) /\ WF_vars(Fail("timeout")) /\ WF_vars(Return) /\ WF_vars(Run)
LiveSpec == Init /\ [][Next]_vars /\ Fairness
TimeoutEventuallyFires == Limit => []((~Idle /\ time >= Deadline) => <>Idle)
=============================================================================
