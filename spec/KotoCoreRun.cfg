INIT Init
NEXT Next
