INIT Init
NEXT Next
