INIT Init
NEXT Next
INVARIANTS TypeOK OneEntryPerKey NoDangling
PROPERTY Props
