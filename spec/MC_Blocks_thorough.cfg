CONSTANTS
  MaxLines = 6
  MaxDepth = 3
INIT Init
NEXT Next
INVARIANTS TypeOK NeedsMoreIffEmptyBlock Emit
