INIT Init
NEXT Next
