---------------------------- MODULE Trace_KotoVm ----------------------------
(***************************************************************************)
(* Trace validation: recorded executions of the real VM (hook events, one  *)
(* JSON record per execution in the file named by TRACES) are folded       *)
(* through KotoVm!Apply.  An execution is accepted iff every event is a    *)
(* step of the specification; for a rejected one the index of the first    *)
(* rejected event and the violated rule are reported.                      *)
(*                                                                         *)
(* Two readings of the same specification:                                 *)
(*   Fold   -- one TLC state per execution (fast; used by the checks)      *)
(*   Steps  -- one TLC state per event of execution number STEP_TRACE,     *)
(*             accepted by diameter (the classic reading; cross-check)     *)
(***************************************************************************)
EXTENDS KotoVm, Json, IOUtils, TLCExt

Traces == ndJsonDeserialize(IOEnv.TRACES)

RECURSIVE Fold(_, _, _)
Fold(s, evs, i) ==
    IF i > Len(evs) \/ ~s.ok THEN s
    ELSE Fold(Apply(s, evs[i]), evs, i + 1)

Verdict(k) == LET s == Fold(InitState, Traces[k].events, 1) IN
              [id |-> Traces[k].id, ok |-> s.ok, at |-> s.n, why |-> s.why, events |-> Len(Traces[k].events)]

VARIABLES idx, phase, st, l
Init == idx \in 1 .. Len(Traces) /\ phase = "load" /\ st = 0 /\ l = 0
Next == /\ phase = "load" /\ phase' = "done" /\ idx' = idx /\ UNCHANGED <<st, l>>
        /\ PrintT(<<"VERDICT", ToJson(Verdict(idx))>>)

(* ---- classic reading: one state per event ---- *)
StepTrace == Traces[IF "STEP_TRACE" \in DOMAIN IOEnv THEN atoi(IOEnv.STEP_TRACE) ELSE 1].events
StepInit == st = InitState /\ l = 1 /\ idx = 0 /\ phase = "steps"
StepNext == /\ l <= Len(StepTrace) /\ st.ok /\ UNCHANGED <<idx, phase>>
            /\ st' = Apply(st, StepTrace[l]) /\ l' = l + 1
StepAccepted == TLCGet("stats").diameter - 1 = Len(StepTrace)
StepOk == st.ok
=============================================================================
