SPECIFICATION LiveSpec
PROPERTY TimeoutEventuallyFires
