INIT Init
NEXT Next
