CONSTANTS
  MaxLen = 4
  MaxDepth = 2
INIT Init
NEXT Next
