--------------------------- MODULE Trace_Shared ---------------------------
(***************************************************************************)
(* Rounds recorded from real threads on the arc build (kv threads): each   *)
(* is [id, scripts, obs, mem0, final]; a round is accepted iff some        *)
(* one-at-a-time order of the operations, each thread's own order kept,    *)
(* produces exactly the observed results and the final contents.           *)
(***************************************************************************)
EXTENDS SharedOps, Json, IOUtils

(***************************************************************************)
(* Trace validation: rounds recorded from real threads                     *)
(***************************************************************************)
Rounds == ndJsonDeserialize(IOEnv.ROUNDS)

RoundOk(r) == Explains(r.scripts, r.obs, r.mem0, r.final)

VARIABLES idx, phase
Init == idx \in 1 .. Len(Rounds) /\ phase = "load"
Next == /\ phase = "load" /\ phase' = "done" /\ idx' = idx
             /\ (RoundOk(Rounds[idx]) \/ PrintT(<<"REJECTED", ToJson([id |-> Rounds[idx].id])>>))
=============================================================================
