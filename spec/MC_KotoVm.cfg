INIT Init
NEXT Next
INVARIANT Accepted
INVARIANT SameShape
INVARIANT RearmedPerRun
