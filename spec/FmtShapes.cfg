INIT Init
NEXT Next
