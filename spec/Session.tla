------------------------------- MODULE Session -------------------------------
(***************************************************************************)
(* One embedding instance (koto::Koto) driven by a host through a history  *)
(* of operations: compile_and_run of succeeding and failing scripts,       *)
(* call_function / call_exported_function, value_to_string (C07).          *)
(*                                                                         *)
(* The abstract state is "the completed effects": the exported counter x   *)
(* and the contents of the exported list lst.  A failing operation keeps   *)
(* the effects it completed before the failure and nothing else; every     *)
(* later operation behaves as a function of the abstract state only --     *)
(* i.e. exactly as on a fresh instance brought to the same abstract state. *)
(* The operations are a fixed library (scripts in lib/check_c07.py) whose  *)
(* effects are specified here.                                             *)
(***************************************************************************)
EXTENDS Naturals, Sequences, TLC, Json

CONSTANTS Ops, MaxLen

VARIABLES x, lst, hist, preds
vars == <<x, lst, hist, preds>>

Ok(v) == [status |-> "ok", value |-> v]
Err(cls) == [status |-> "err", cls |-> cls]

RECURSIVE ShowSeq(_, _)
ShowSeq(s, i) == IF i > Len(s) THEN "" ELSE ToString(s[i]) \o (IF i < Len(s) THEN ", " ELSE "") \o ShowSeq(s, i + 1)
ShowList(s) == "[" \o ShowSeq(s, 1) \o "]"

(* Effect(op): [x, lst, res].  Failing scripts first push 7 and add 10 to x (completed effects), then fail. *)
Pre == [x |-> x + 10, lst |-> Append(lst, 7)]
Effect(op) ==
    CASE op = "r_inc"     -> [x |-> x + 1, lst |-> lst, res |-> Ok(ToString(x + 1))]
      [] op = "r_push"    -> [x |-> x, lst |-> Append(lst, x), res |-> Ok(ToString(Len(lst) + 1))]
      [] op = "r_probe"   -> [x |-> x, lst |-> lst, res |-> Ok(ToString(x))]
      [] op \in {"f_throw", "f_each", "f_gen", "f_str", "f_seq", "f_type", "f_arity", "f_import", "f_op", "f_nested_try"}
                          -> [x |-> Pre.x, lst |-> Pre.lst, res |-> Err("error")]
      [] op = "f_call"    -> [x |-> Pre.x, lst |-> Append(Pre.lst, 3), res |-> Err("error")]
      [] op = "f_timeout" -> [x |-> Pre.x, lst |-> Pre.lst, res |-> Err("timeout")]
      [] op \in {"f_compile", "f_indent"} -> [x |-> x, lst |-> lst, res |-> Err("compile")]
      [] op = "c_bump"    -> [x |-> x, lst |-> Append(lst, 2), res |-> Ok(ToString(x + 2))]
      [] op = "c_boom"    -> [x |-> x, lst |-> Append(lst, 5), res |-> Err("error")]
      [] op = "c_deep"    -> [x |-> x, lst |-> lst \o <<6, 1>>, res |-> Err("error")]
      [] op \in {"c_few", "c_many", "c_native", "c_notfn"} -> [x |-> x, lst |-> lst, res |-> Err("error")]
      \* host displays of objects whose @display cannot even be called (not a function, wrong arity) or fails when it runs
      [] op \in {"d_notfn", "d_arity", "d_throw"} -> [x |-> x, lst |-> lst, res |-> Err("error")]
      [] op = "c_missing" -> [x |-> x, lst |-> lst, res |-> Err("missing_function")]
      [] op = "c_gen"     -> [x |-> x, lst |-> Append(lst, 8), res |-> Err("error")]
      [] op = "d_lst"     -> [x |-> x, lst |-> lst, res |-> Ok(ShowList(lst))]
      [] op = "d_x"       -> [x |-> x, lst |-> lst, res |-> Ok(ToString(x))]

Init == x = 0 /\ lst = <<>> /\ hist = <<>> /\ preds = <<>>

Do(op) == /\ Len(hist) < MaxLen
          /\ LET r == Effect(op) IN
             /\ x' = r.x /\ lst' = r.lst
             /\ hist' = Append(hist, op)
             /\ preds' = Append(preds, [res |-> r.res, x |-> ToString(r.x), lst |-> ShowList(r.lst)])

Next == \E op \in Ops : Do(op)
Spec == Init /\ [][Next]_vars

(* OnlyCompletedEffects, stated on the model: the observable part of every prediction is a function of the
   abstract state alone (two histories reaching the same abstract state are indistinguishable afterwards). *)
TypeOK == x \in Nat /\ Len(hist) = Len(preds) /\ Len(hist) <= MaxLen

Emit == Len(hist) = MaxLen => PrintT(<<"HIST", ToJson([hist |-> hist, preds |-> preds])>>)
=============================================================================
