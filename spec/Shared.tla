------------------------------ MODULE Shared ------------------------------
(***************************************************************************)
(* Containers shared between runtimes on different threads (C19, the arc   *)
(* build).  Each container is guarded by a read/write lock                 *)
(* (crates/memory/src/ptr_impl/arc.rs: parking_lot::RwLock); a core        *)
(* library operation is a short program of lock steps, transcribed from    *)
(* crates/runtime/src/core_lib/list.rs:                                    *)
(*                                                                         *)
(*    push, pop, clear            write lock, change, release              *)
(*    get, size                   read lock, look, release                 *)
(*    insert, remove              ONE write lock: check the index and      *)
(*                                change (as repaired).  With TwoStep the  *)
(*                                model follows the code as it was: read   *)
(*                                lock + check, release, write lock +      *)
(*                                unchecked change                         *)
(*    removeval (map.remove)      one write lock: find the entry and       *)
(*                                remove it                                *)
(*    sort, fill                  one write lock: rewrite the contents     *)
(*    extend(c, d)                read lock on d + copy, release, write    *)
(*                                lock on c + append                       *)
(*    swap(c, d)                  write lock on c, then write lock on d    *)
(*                                (both held)                              *)
(*                                                                         *)
(* The atomic meaning of every operation is Apply.  The property:          *)
(*   NoPanic         no interleaving makes an operation fail internally    *)
(*   Linearizable    whatever the threads observed, and the final          *)
(*                   contents, are explained by running the operations one *)
(*                   at a time in some order that respects each thread's   *)
(*                   own order                                             *)
(*   deadlock freedom (TLC's deadlock check) for scripts whose operations  *)
(*                   each touch a single container                         *)
(* The same Explains operator validates rounds recorded from real threads  *)
(* (lib/check_c19.py): TraceOk.                                            *)
(***************************************************************************)
EXTENDS SharedOps, Json, IOUtils

(***************************************************************************)
(* Model checking: threads run micro-programs of lock steps                *)
(***************************************************************************)
TwoStep == IOEnv.TWOSTEP = "1"       \* follow list.insert / list.remove as they were before the repair
TwoStepFind == IOEnv.TWOSTEP = "2"   \* remove-by-value looks the entry up and removes it under two separate locks
TwoStepRewrite == IOEnv.TWOSTEP = "3" \* sort / fill prepare the new contents under the read lock and store them under the write lock
NThreads == atoi(IOEnv.THREADS)
OpsPer == atoi(IOEnv.OPS)
Family == IOEnv.FAMILY               \* "single": operations on one container;  "pair": extend and swap on two containers

Threads == 1 .. NThreads
Containers == IF Family = "pair" THEN {1, 2} ELSE {1}
Mem0 == [c \in Containers |-> IF c = 1 THEN <<10, 20>> ELSE <<30>>]

O(k, c, d, i, v) == [k |-> k, c |-> c, d |-> d, i |-> i, v |-> v]
OpSet(t) ==
    IF Family = "pair" THEN {O("extend", 1, 2, 0, 0), O("extend", 2, 1, 0, 0), O("swap", 1, 2, 0, 0), O("swap", 2, 1, 0, 0),
                             O("push", 1, 0, 0, 100 * t)}
    ELSE {O("push", 1, 0, 0, 100 * t), O("pop", 1, 0, 0, 0), O("clear", 1, 0, 0, 0), O("get", 1, 0, 1, 0), O("size", 1, 0, 0, 0),
          O("insert", 1, 0, 2, 100 * t + 1), O("remove", 1, 0, 1, 0), O("removeval", 1, 0, 0, 10 * t),
          O("sort", 1, 0, 0, 0), O("fill", 1, 0, 0, 7 * t)} \cup
         (IF IOEnv.FULLOPS = "1" THEN {O("insert", 1, 0, 0, 100 * t + 2), O("remove", 1, 0, 0, 0)} ELSE {})

\* micro-programs: [a |-> "acq", c, m] / [a |-> "rel", c] / [a |-> "do", f]
Acq(c, m) == [a |-> "acq", c |-> c, m |-> m, f |-> ""]
Rel(c) == [a |-> "rel", c |-> c, m |-> "", f |-> ""]
Do(f) == [a |-> "do", c |-> 0, m |-> "", f |-> f]

Program(op) ==
    CASE op.k \in {"push", "pop", "clear"} -> <<Acq(op.c, "w"), Do("atomic"), Rel(op.c)>>
      [] op.k \in {"get", "size"} -> <<Acq(op.c, "r"), Do("atomic"), Rel(op.c)>>
      [] op.k \in {"insert", "remove"} ->
            IF TwoStep THEN <<Acq(op.c, "r"), Do("check"), Rel(op.c), Acq(op.c, "w"), Do("unchecked"), Rel(op.c)>>
            ELSE <<Acq(op.c, "w"), Do("atomic"), Rel(op.c)>>
      [] op.k = "removeval" ->
            \* TwoStep: look the entry up under the read lock, remove "the entry at that position" under the write lock
            \* (the shape of a seeded change to KMap::remove; the code takes one write lock)
            IF TwoStepFind THEN <<Acq(op.c, "r"), Do("find"), Rel(op.c), Acq(op.c, "w"), Do("remove_found"), Rel(op.c)>>
            ELSE <<Acq(op.c, "w"), Do("atomic"), Rel(op.c)>>
      [] op.k \in {"sort", "fill"} ->
            \* one write lock (list.fill; list.sort of plain values, as repaired).  TwoStepRewrite: the shape of list.sort
            \* between the two repairs and of a seeded change to list.fill
            IF TwoStepRewrite THEN <<Acq(op.c, "r"), Do("prepare"), Rel(op.c), Acq(op.c, "w"), Do("store"), Rel(op.c)>>
            ELSE <<Acq(op.c, "w"), Do("atomic"), Rel(op.c)>>
      [] op.k = "extend" -> <<Acq(op.d, "r"), Do("copy"), Rel(op.d), Acq(op.c, "w"), Do("append"), Rel(op.c)>>
      [] op.k = "swap" -> <<Acq(op.c, "w"), Acq(op.d, "w"), Do("atomic"), Rel(op.d), Rel(op.c)>>

VARIABLES scripts,    \* thread -> sequence of operations (chosen initially)
          mem,        \* container -> contents
          lock,       \* container -> [w: thread or 0, r: set of threads]
          pc,         \* thread -> index of the current operation
          mpc,        \* thread -> index into the current operation's micro-program
          tmp,        \* thread -> value carried between micro-steps (the copy made by extend; "ok"/"e" of a check)
          obs,        \* thread -> results observed so far
          panic       \* an operation failed internally
vars == <<scripts, mem, lock, pc, mpc, tmp, obs, panic>>

RECURSIVE SeqsOfLen(_, _)
SeqsOfLen(S, n) == IF n = 0 THEN {<<>>} ELSE {Append(q, x) : q \in SeqsOfLen(S, n - 1), x \in S}

Init == /\ scripts \in [Threads -> UNION {SeqsOfLen(UNION {OpSet(t) : t \in Threads}, OpsPer)}]
        /\ \A t \in Threads : \A j \in 1 .. Len(scripts[t]) : scripts[t][j] \in OpSet(t)
        /\ mem = Mem0
        /\ lock = [c \in Containers |-> [w |-> 0, r |-> {}]]
        /\ pc = [t \in Threads |-> 1]
        /\ mpc = [t \in Threads |-> 1]
        /\ tmp = [t \in Threads |-> <<>>]
        /\ obs = [t \in Threads |-> <<>>]
        /\ panic = FALSE

Running(t) == pc[t] <= Len(scripts[t])
CurOp(t) == scripts[t][pc[t]]
CurStep(t) == Program(CurOp(t))[mpc[t]]

Advance(t) ==
    IF mpc[t] = Len(Program(CurOp(t)))
    THEN pc' = [pc EXCEPT ![t] = @ + 1] /\ mpc' = [mpc EXCEPT ![t] = 1]
    ELSE mpc' = [mpc EXCEPT ![t] = @ + 1] /\ UNCHANGED pc

Acquire(t) ==
    /\ Running(t) /\ CurStep(t).a = "acq"
    /\ LET s == CurStep(t) IN
       /\ IF s.m = "w" THEN lock[s.c].w = 0 /\ lock[s.c].r = {}        \* a writer needs the lock to be free
                       ELSE lock[s.c].w = 0                            \* readers share
       /\ lock' = [lock EXCEPT ![s.c] = IF s.m = "w" THEN [@ EXCEPT !.w = t] ELSE [@ EXCEPT !.r = @ \cup {t}]]
    /\ Advance(t)
    /\ UNCHANGED <<scripts, mem, tmp, obs, panic>>

Release(t) ==
    /\ Running(t) /\ CurStep(t).a = "rel"
    /\ LET s == CurStep(t) IN
       lock' = [lock EXCEPT ![s.c] = IF @.w = t THEN [@ EXCEPT !.w = 0] ELSE [@ EXCEPT !.r = @ \ {t}]]
    /\ Advance(t)
    /\ UNCHANGED <<scripts, mem, tmp, obs, panic>>

Step(t) ==
    /\ Running(t) /\ CurStep(t).a = "do"
    /\ LET op == CurOp(t)
           f  == CurStep(t).f
           xs == mem[op.c] IN
       CASE f = "atomic" ->
                LET r == Apply(mem, op) IN
                mem' = r.mem /\ obs' = [obs EXCEPT ![t] = Append(@, r.res)] /\ UNCHANGED <<tmp, panic>>
         [] f = "check" ->           \* bounds check under the read lock; an error is thrown at once
                LET bad == IF op.k = "insert" THEN op.i > Len(xs) ELSE op.i >= Len(xs) IN
                /\ tmp' = [tmp EXCEPT ![t] = IF bad THEN "e" ELSE "ok"]
                /\ UNCHANGED <<mem, obs, panic>>
         [] f = "unchecked" ->       \* Vec::insert / Vec::remove: the index is asserted, a bad index aborts the operation
                IF tmp[t] = "e" THEN obs' = [obs EXCEPT ![t] = Append(@, RE)] /\ UNCHANGED <<mem, tmp, panic>>
                ELSE IF (op.k = "insert" /\ op.i > Len(xs)) \/ (op.k = "remove" /\ op.i >= Len(xs))
                     THEN panic' = TRUE /\ obs' = [obs EXCEPT ![t] = Append(@, RP)] /\ UNCHANGED <<mem, tmp>>
                     ELSE LET r == Apply(mem, op) IN
                          mem' = r.mem /\ obs' = [obs EXCEPT ![t] = Append(@, r.res)] /\ UNCHANGED <<tmp, panic>>
         [] f = "find" ->
                (LET H == {i \in 1 .. Len(xs) : xs[i] = op.v} IN
                 /\ tmp' = [tmp EXCEPT ![t] = IF H = {} THEN 0 ELSE CHOOSE i \in H : \A j \in H : i <= j]
                 /\ UNCHANGED <<mem, obs, panic>>)
         [] f = "remove_found" ->
                (IF tmp[t] = 0 \/ tmp[t] > Len(xs) THEN obs' = [obs EXCEPT ![t] = Append(@, RN)] /\ UNCHANGED <<mem, tmp, panic>>
                 ELSE /\ mem' = [mem EXCEPT ![op.c] = RemoveAt(xs, tmp[t] - 1)]
                      /\ obs' = [obs EXCEPT ![t] = Append(@, RI(xs[tmp[t]]))] /\ UNCHANGED <<tmp, panic>>)
         [] f = "prepare" -> /\ tmp' = [tmp EXCEPT ![t] = Apply(mem, op).mem[op.c]]
                             /\ UNCHANGED <<mem, obs, panic>>
         [] f = "store" -> /\ mem' = [mem EXCEPT ![op.c] = tmp[t]]
                           /\ obs' = [obs EXCEPT ![t] = Append(@, RN)] /\ UNCHANGED <<tmp, panic>>
         [] f = "copy" -> tmp' = [tmp EXCEPT ![t] = mem[op.d]] /\ UNCHANGED <<mem, obs, panic>>
         [] f = "append" -> /\ mem' = [mem EXCEPT ![op.c] = @ \o tmp[t]]
                            /\ obs' = [obs EXCEPT ![t] = Append(@, RN)] /\ UNCHANGED <<tmp, panic>>
    /\ Advance(t)
    /\ UNCHANGED <<scripts, lock>>

\* when the check of a two-step operation failed the write phase is skipped by the code (early return); the model keeps the
\* lock steps and records the error at the "unchecked" step, which does not touch the contents: same observable behaviour
Done == (\A t \in Threads : ~Running(t)) /\ UNCHANGED vars

Next == (\E t \in Threads : Acquire(t) \/ Release(t) \/ Step(t)) \/ Done

NoPanic == ~panic

Linearizable == (\A t \in Threads : ~Running(t)) => Explains(scripts, obs, Mem0, mem)

LocksAreSound == \A c \in Containers : lock[c].w # 0 => lock[c].r = {}

=============================================================================
