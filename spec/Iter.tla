-------------------------------- MODULE Iter --------------------------------
(***************************************************************************)
(* Iterator pipelines (C13).                                               *)
(*                                                                         *)
(* Two readings of every adaptor:                                          *)
(*   Def(ad, s)      the mathematical definition on a finite sequence      *)
(*                   (docs/core_lib/iterator.md)                           *)
(*   Pull(k, st)     a small state machine per adaptor instance with a     *)
(*                   private cursor, pulling from the level below on       *)
(*                   demand; level 0 is the source, which logs every pull  *)
(* TLC checks, for every pipeline / source / consumer in scope, that the   *)
(* machines produce exactly the defined sequence (OutputsEqualDefinition), *)
(* never pull before being consumed, and pull the source in order; the     *)
(* predicted outputs and the number of source pulls after every consumer   *)
(* action are then replayed against the implementation (the pull count as  *)
(* an upper bound: a lazier implementation is accepted).                   *)
(*                                                                         *)
(* Values: [t |-> "i", v |-> Int] and [t |-> "t", v |-> Seq(Value)].       *)
(***************************************************************************)
EXTENDS Integers, Sequences, FiniteSets, TLC, Json

I(v) == [t |-> "i", v |-> v]
T(s) == [t |-> "t", v |-> s]
VEq(a, b) == a.t = b.t /\ a = b

Min(a, b) == IF a < b THEN a ELSE b
Max(a, b) == IF a > b THEN a ELSE b

(***************************************************************************)
(* Adaptors: [a |-> name, n |-> parameter]                                 *)
(***************************************************************************)
Second(ad) == IF ad.a = "chain" THEN <<I(91), I(92)>> ELSE <<I(81), I(82)>>

RECURSIVE FlattenSeq(_)
FlattenSeq(s) == IF s = <<>> THEN <<>>
                 ELSE (IF Head(s).t = "t" THEN Head(s).v ELSE <<Head(s)>>) \o FlattenSeq(Tail(s))
RECURSIVE Intersp(_, _)
Intersp(s, sep) == IF Len(s) <= 1 THEN s ELSE <<Head(s), sep>> \o Intersp(Tail(s), sep)
RECURSIVE ChunkSeq(_, _)
ChunkSeq(s, n) == IF s = <<>> THEN <<>> ELSE <<T(SubSeq(s, 1, Min(n, Len(s))))>> \o ChunkSeq(SubSeq(s, Min(n, Len(s)) + 1, Len(s)), n)

\* the test function of takew (take with a test function) is |x| x != 3; PassLen: length of the longest prefix that passes it
PassLen(s) == LET F == {i \in 1 .. Len(s) : VEq(s[i], I(3))} IN IF F = {} THEN Len(s) ELSE (CHOOSE i \in F : \A j \in F : i <= j) - 1

(* the definition; for `cycle` the first `lim` elements of the infinite sequence *)
Def(ad, s, lim) ==
    CASE ad.a = "each"      -> [i \in 1 .. Len(s) |-> T(<<s[i], I(7)>>)]
      [] ad.a = "keep"      -> SelectSeq(s, LAMBDA x : ~VEq(x, I(2)))
      [] ad.a = "skip"      -> SubSeq(s, Min(ad.n, Len(s)) + 1, Len(s))
      [] ad.a = "take"      -> SubSeq(s, 1, Min(ad.n, Len(s)))
      \* docs: take with a test function -- values while they pass the test
      [] ad.a = "takew"     -> SubSeq(s, 1, PassLen(s))
      [] ad.a = "step"      -> [i \in 1 .. ((Len(s) + ad.n - 1) \div ad.n) |-> s[(i - 1) * ad.n + 1]]
      [] ad.a = "enumerate" -> [i \in 1 .. Len(s) |-> T(<<I(i - 1), s[i]>>)]
      [] ad.a = "chunks"    -> ChunkSeq(s, ad.n)
      [] ad.a = "windows"   -> [i \in 1 .. Max(0, Len(s) - ad.n + 1) |-> T(SubSeq(s, i, i + ad.n - 1))]
      [] ad.a = "intersperse" -> Intersp(s, I(0))
      [] ad.a = "chain"     -> s \o Second(ad)
      [] ad.a = "zip"       -> [i \in 1 .. Min(Len(s), 2) |-> T(<<s[i], Second(ad)[i]>>)]
      [] ad.a = "cycle"     -> IF s = <<>> THEN <<>> ELSE [i \in 1 .. lim |-> s[((i - 1) % Len(s)) + 1]]
      [] ad.a = "flatten"   -> FlattenSeq(s)
      [] ad.a = "reversed"  -> [i \in 1 .. Len(s) |-> s[Len(s) + 1 - i]]
      [] ad.a = "peekable"  -> s

RECURSIVE DefPipe(_, _, _)
DefPipe(pipe, s, lim) == IF pipe = <<>> THEN s ELSE DefPipe(Tail(pipe), Def(Head(pipe), s, lim), lim)

(***************************************************************************)
(* Operational reading.  State st: [src (items), f (front cursor: pulled   *)
(* from the front), b (pulled from the back), log (pull log), ad (Seq of   *)
(* adaptor states, level 1 first)].  Pull(st, k) -> [st, out] with out =   *)
(* [some |-> BOOLEAN, v].                                                  *)
(***************************************************************************)
None == [some |-> FALSE]
Some(v) == [some |-> TRUE, v |-> v]

InitAd(ad) == [a |-> ad.a, n |-> ad.n,
               rem |-> ad.n,           \* skip: still to skip; take: still to take
               idx |-> 0,              \* enumerate: next index; zip / chain: cursor in the second sequence; cycle: cursor
               cache |-> <<>>,         \* windows: current window; cycle: everything seen; flatten: pending elements
               peek |-> None, sep |-> FALSE, done |-> FALSE]

RECURSIVE Pull(_, _)
RECURSIVE PullBack(_, _)
RECURSIVE PullN(_, _, _, _)
RECURSIVE SkipN(_, _, _)
RECURSIVE PullAlways(_, _, _)

SrcNext(st) == IF st.f + st.b < Len(st.src)
               THEN [st |-> [st EXCEPT !.f = @ + 1, !.log = Append(@, st.src[st.f + 1])], out |-> Some(st.src[st.f + 1])]
               ELSE [st |-> st, out |-> None]
SrcBack(st) == IF st.f + st.b < Len(st.src)
               THEN [st |-> [st EXCEPT !.b = @ + 1, !.log = Append(@, st.src[Len(st.src) - st.b])],
                     out |-> Some(st.src[Len(st.src) - st.b])]
               ELSE [st |-> st, out |-> None]

(* pull up to n values from level k: [st, vals] *)
PullN(st, k, n, acc) ==
    IF n = 0 THEN [st |-> st, vals |-> acc]
    ELSE LET r == Pull(st, k) IN
         IF ~r.out.some THEN [st |-> r.st, vals |-> acc] ELSE PullN(r.st, k, n - 1, Append(acc, r.out.v))
SkipN(st, k, n) == IF n = 0 THEN st ELSE LET r == Pull(st, k) IN IF ~r.out.some THEN r.st ELSE SkipN(r.st, k, n - 1)
PullAlways(st, k, n) == IF n = 0 THEN st ELSE PullAlways(Pull(st, k).st, k, n - 1)

Pull(st, k) ==
    IF k = 0 THEN SrcNext(st)
    ELSE
    LET ad == st.ad[k]
        Set(s, a2) == [s EXCEPT !.ad[k] = a2] IN
    CASE ad.a = "each" -> (LET r == Pull(st, k - 1) IN
                           [st |-> r.st, out |-> IF r.out.some THEN Some(T(<<r.out.v, I(7)>>)) ELSE None])
      [] ad.a = "keep" ->
            (LET RECURSIVE Seek(_)
                 Seek(s) == LET r == Pull(s, k - 1) IN
                            IF ~r.out.some THEN r ELSE IF VEq(r.out.v, I(2)) THEN Seek(r.st) ELSE r
             IN Seek(st))
      [] ad.a = "skip" ->
            (IF ad.rem > 0 THEN Pull(SkipN(Set(st, [ad EXCEPT !.rem = 0]), k - 1, ad.rem), k - 1) ELSE Pull(st, k - 1))
      [] ad.a = "take" ->
            (IF ad.rem = 0 THEN [st |-> st, out |-> None]
             ELSE LET r == Pull(st, k - 1) IN [st |-> Set(r.st, [ad EXCEPT !.rem = @ - 1]), out |-> r.out])
      [] ad.a = "takew" ->
            (IF ad.done THEN [st |-> st, out |-> None]
             ELSE LET r == Pull(st, k - 1) IN
                  \* finished once a value fails the test; the end of the input is passed on as it is
                  IF ~r.out.some \/ ~VEq(r.out.v, I(3)) THEN r
                  ELSE [st |-> Set(r.st, [ad EXCEPT !.done = TRUE]), out |-> None])
      [] ad.a = "step" ->      \* yields the next value, then steps over the following n - 1 (the docs do not say
                               \* when; the machine reads ahead right away, and also after the end: an upper bound)
            (LET r == Pull(st, k - 1) IN [st |-> PullAlways(r.st, k - 1, ad.n - 1), out |-> r.out])
      [] ad.a = "enumerate" ->
            (LET r == Pull(st, k - 1) IN
             IF ~r.out.some THEN r
             ELSE [st |-> Set(r.st, [ad EXCEPT !.idx = @ + 1]), out |-> Some(T(<<I(ad.idx), r.out.v>>))])
      [] ad.a = "chunks" ->
            (LET r == PullN(st, k - 1, ad.n, <<>>) IN
             [st |-> r.st, out |-> IF r.vals = <<>> THEN None ELSE Some(T(r.vals))])
      [] ad.a = "windows" ->       \* drop the oldest cached value, refill the window from below, yield it if complete
            (LET c0 == IF ad.cache = <<>> THEN <<>> ELSE Tail(ad.cache)
                 r == PullN(st, k - 1, ad.n - Len(c0), <<>>)
                 w == c0 \o r.vals IN
             [st |-> Set(r.st, [ad EXCEPT !.cache = w]), out |-> IF Len(w) = ad.n THEN Some(T(w)) ELSE None])
      [] ad.a = "intersperse" ->
            (LET r == IF ad.peek.some THEN [st |-> Set(st, [ad EXCEPT !.peek = None]), out |-> ad.peek] ELSE Pull(st, k - 1)
                 a1 == r.st.ad[k] IN
             IF ~r.out.some THEN r
             ELSE IF a1.sep THEN [st |-> Set(r.st, [a1 EXCEPT !.peek = r.out, !.sep = FALSE]), out |-> Some(I(0))]
             ELSE [st |-> Set(r.st, [a1 EXCEPT !.sep = TRUE]), out |-> r.out])
      [] ad.a = "chain" ->
            (IF ~ad.done THEN
                LET r == Pull(st, k - 1) IN
                IF r.out.some THEN r
                ELSE Pull(Set(r.st, [ad EXCEPT !.done = TRUE]), k)
             ELSE IF ad.idx < Len(Second(ad)) THEN
                [st |-> Set(st, [ad EXCEPT !.idx = @ + 1]), out |-> Some(Second(ad)[ad.idx + 1])]
             ELSE [st |-> st, out |-> None])
      [] ad.a = "zip" ->
            (LET r == Pull(st, k - 1) IN
             IF ~r.out.some \/ ad.idx >= Len(Second(ad)) THEN [st |-> r.st, out |-> None]
             ELSE [st |-> Set(r.st, [ad EXCEPT !.idx = @ + 1]), out |-> Some(T(<<r.out.v, Second(ad)[ad.idx + 1]>>))])
      [] ad.a = "cycle" ->
            (LET r == Pull(st, k - 1) IN      \* asks the input again on every call (inputs need not be fused)
             IF r.out.some THEN [st |-> Set(r.st, [ad EXCEPT !.cache = Append(@, r.out.v)]), out |-> r.out]
             ELSE IF ad.cache = <<>> THEN [st |-> Set(r.st, [ad EXCEPT !.done = TRUE]), out |-> None]
             ELSE LET i == IF ad.idx = Len(ad.cache) THEN 0 ELSE ad.idx IN
                  [st |-> Set(r.st, [ad EXCEPT !.done = TRUE, !.idx = i + 1]), out |-> Some(ad.cache[i + 1])])
      [] ad.a = "flatten" ->
            (IF ad.cache # <<>> THEN [st |-> Set(st, [ad EXCEPT !.cache = Tail(@)]), out |-> Some(Head(ad.cache))]
             ELSE LET r == Pull(st, k - 1) IN
                  IF ~r.out.some THEN r
                  ELSE IF r.out.v.t = "t" THEN
                      (IF r.out.v.v = <<>> THEN Pull(r.st, k)
                       ELSE [st |-> Set(r.st, [ad EXCEPT !.cache = Tail(r.out.v.v)]), out |-> Some(Head(r.out.v.v))])
                  ELSE r)
      [] ad.a = "reversed" -> PullBack(st, k - 1)
      [] ad.a = "peekable" -> Pull(st, k - 1)

(* pulling from the back: the source, and the adaptors that are bidirectional over a bidirectional input *)
PullBack(st, k) ==
    IF k = 0 THEN SrcBack(st)
    ELSE LET ad == st.ad[k] IN
    CASE ad.a = "each" -> (LET r == PullBack(st, k - 1) IN
                           [st |-> r.st, out |-> IF r.out.some THEN Some(T(<<r.out.v, I(7)>>)) ELSE None])
      [] ad.a = "skip" -> (IF ad.rem > 0 THEN PullBack(SkipN([st EXCEPT !.ad[k].rem = 0], k - 1, ad.rem), k - 1)
                           ELSE PullBack(st, k - 1))
      [] ad.a = "reversed" -> Pull(st, k - 1)
      [] ad.a = "peekable" -> PullBack(st, k - 1)

Bidirectional(ad) == ad.a \in {"each", "skip", "reversed", "peekable"}
(* pipelines in which `reversed` is applied to something that can be pulled from the back *)
RECURSIVE WellFormed(_, _)
WellFormed(pipe, bidi) ==
    IF pipe = <<>> THEN TRUE
    ELSE LET ad == Head(pipe) IN
         (ad.a = "reversed" => bidi) /\ WellFormed(Tail(pipe), bidi /\ Bidirectional(ad))

(***************************************************************************)
(* Consumers on a finished output sequence (docs: iterator consumers).     *)
(***************************************************************************)
AllInts(s) == \A i \in 1 .. Len(s) : s[i].t = "i"
RECURSIVE SumSeq(_)
SumSeq(s) == IF s = <<>> THEN 0 ELSE Head(s).v + SumSeq(Tail(s))
MinInt(s) == CHOOSE x \in {s[i].v : i \in 1 .. Len(s)} : \A y \in {s[i].v : i \in 1 .. Len(s)} : x <= y
MaxInt(s) == CHOOSE x \in {s[i].v : i \in 1 .. Len(s)} : \A y \in {s[i].v : i \in 1 .. Len(s)} : x >= y
FirstPos(s, v) == LET S == {i \in 1 .. Len(s) : VEq(s[i], v)} IN IF S = {} THEN 0 ELSE CHOOSE i \in S : \A j \in S : i <= j

(***************************************************************************)
(* Scope and generation.                                                   *)
(***************************************************************************)
Adaptors == {[a |-> "each", n |-> 0], [a |-> "keep", n |-> 0], [a |-> "takew", n |-> 0], [a |-> "enumerate", n |-> 0], [a |-> "intersperse", n |-> 0],
             [a |-> "chain", n |-> 0], [a |-> "zip", n |-> 0], [a |-> "flatten", n |-> 0], [a |-> "reversed", n |-> 0],
             [a |-> "peekable", n |-> 0], [a |-> "cycle", n |-> 0]}
            \cup {[a |-> x, n |-> k] : x \in {"skip", "take"}, k \in {0, 1, 2, 5}}
            \cup {[a |-> x, n |-> k] : x \in {"step", "chunks", "windows"}, k \in {1, 2, 3}}

CONSTANTS MaxLen, MaxDepth

SrcOf(n) == [i \in 1 .. n |-> I(i)]

VARIABLES pipe, n, phase
Pulls == 9          \* number of stepwise `next` calls of the stepwise consumer

\* Depth 3 is explored on a fixed slice of the product (every pipeline whose three adaptors contain a size-changing one in
\* the middle and whose source length is 3 or MaxLen): the full product at depth 3 does not finish in a check's time
Depth3Ok(p, len) == /\ p[2].a \in {"skip", "take", "takew", "step", "chunks", "windows", "keep", "flatten", "peekable", "reversed"}
                    /\ p[1].a # "cycle" /\ p[3].a # "cycle"
                    /\ len \in {3, MaxLen}

Init == /\ phase = "gen"
        /\ n \in 0 .. MaxLen
        /\ \E d \in 1 .. MaxDepth : pipe \in [1 .. d -> Adaptors]
        /\ (Len(pipe) = 3 => Depth3Ok(pipe, n))

InitSt(bidi) == [src |-> SrcOf(n), f |-> 0, b |-> 0, log |-> <<>>, ad |-> [k \in 1 .. Len(pipe) |-> InitAd(pipe[k])]]

(* the stepwise consumer: after each `next` the output (or end) and the number of source pulls so far *)
RECURSIVE Stepwise(_, _, _)
Stepwise(st, i, acc) ==
    IF i = 0 THEN acc
    ELSE LET r == Pull(st, Len(pipe)) IN
         Stepwise(r.st, i - 1, Append(acc, [out |-> r.out, pulls |-> Len(r.st.log), log |-> r.st.log,
                                            \* values taken so far from the second inputs of chain / zip
                                            pulls2 |-> LET RECURSIVE S2(_)
                                                           S2(k) == IF k = 0 THEN 0
                                                                    ELSE (IF r.st.ad[k].a \in {"chain", "zip"} THEN r.st.ad[k].idx ELSE 0) + S2(k - 1)
                                                       IN S2(Len(pipe))]))

(* both ends: a pipeline of bidirectional adaptors pulled from the front and the back in turn (iterator.next_back) *)
AllBidi == \A k \in 1 .. Len(pipe) : Bidirectional(pipe[k])
Ends == <<"f", "b", "b", "f", "b", "f", "f", "b">>
RECURSIVE BothEnds(_, _, _)
BothEnds(st, i, acc) ==
    IF i > Len(Ends) THEN acc
    ELSE LET r == IF Ends[i] = "f" THEN Pull(st, Len(pipe)) ELSE PullBack(st, Len(pipe)) IN
         BothEnds(r.st, i + 1, Append(acc, r.out))
\* the definition: the two ends of the defined sequence are consumed towards each other, and never cross
RECURSIVE DequeRead(_, _, _)
DequeRead(s, i, acc) ==
    IF i > Len(Ends) THEN acc
    ELSE IF s = <<>> THEN DequeRead(s, i + 1, Append(acc, None))
    ELSE IF Ends[i] = "f" THEN DequeRead(Tail(s), i + 1, Append(acc, Some(Head(s))))
    ELSE DequeRead(SubSeq(s, 1, Len(s) - 1), i + 1, Append(acc, Some(s[Len(s)])))

HasCycle == \E k \in 1 .. Len(pipe) : pipe[k].a = "cycle"

Check ==
    LET steps == Stepwise(InitSt(TRUE), Pulls, <<>>)
        outs == SelectSeq(steps, LAMBDA x : x.out.some)
        produced == [i \in 1 .. Len(outs) |-> outs[i].out.v]
        \* `cycle` is cut after 64 elements.  Above a `cycle` the definition is therefore a finite cut of an endless sequence:
        \* its last output may be incomplete (a short final chunk), so it is left out of the comparison
        defn == DefPipe(pipe, SrcOf(n), 64)
        want == IF HasCycle /\ n > 0 THEN SubSeq(defn, 1, Min(IF Len(defn) > 0 THEN Len(defn) - 1 ELSE 0, Pulls))
                ELSE SubSeq(defn, 1, Min(Len(defn), Pulls))
        lastlog == IF steps = <<>> THEN <<>> ELSE steps[Len(steps)].log
    IN  \* OutputsEqualDefinition
        \* (above a `cycle` the definition is a finite cut of an endless sequence: the outputs it provides are compared)
        /\ Assert((IF HasCycle /\ n > 0 THEN Len(produced) >= Len(want) ELSE Len(produced) = Len(want))
                  /\ \A i \in 1 .. Len(want) : VEq(produced[i], want[i]),
                  <<"OutputsEqualDefinition", pipe, n, produced, want>>)
        \* once exhausted, an iterator stays exhausted (except cycle over cached values)
        /\ Assert(HasCycle \/ \A i \in 1 .. Len(steps) : \A j \in i .. Len(steps) : ~steps[i].out.some => ~steps[j].out.some,
                  <<"StaysExhausted", pipe, n>>)
        \* the source is pulled in order, each element at most once (front pulls ascending, back pulls descending)
        /\ Assert(\A i \in 1 .. Len(lastlog) : \A j \in (i + 1) .. Len(lastlog) : lastlog[i] # lastlog[j],
                  <<"PullsEachOnce", pipe, n, lastlog>>)
        /\ Assert(AllBidi => LET m == BothEnds(InitSt(TRUE), 1, <<>>)
                                  d == DequeRead(defn, 1, <<>>)
                              IN \A i \in 1 .. Len(Ends) : m[i].some = d[i].some /\ (m[i].some => VEq(m[i].v, d[i].v)),
                  <<"BothEndsEqualDefinition", pipe, n>>)
        /\ PrintT(<<"PIPE", ToJson([pipe |-> pipe, n |-> n,
                                    ends |-> IF AllBidi THEN Ends ELSE <<>>,
                                    both |-> IF AllBidi THEN LET d == DequeRead(defn, 1, <<>>) IN
                                                             [i \in 1 .. Len(Ends) |-> [some |-> d[i].some, v |-> IF d[i].some THEN d[i].v ELSE I(0)]]
                                             ELSE <<>>,
                                    steps |-> [i \in 1 .. Len(steps) |-> [some |-> steps[i].out.some,
                                                                          v |-> IF steps[i].out.some THEN steps[i].out.v ELSE I(0),
                                                                          pulls |-> steps[i].pulls, pulls2 |-> steps[i].pulls2]],
                                    all |-> IF HasCycle /\ n > 0 THEN <<>> ELSE defn,
                                    finite |-> ~HasCycle,
                                    allints |-> AllInts(defn),
                                    count |-> Len(defn),
                                    sum |-> IF AllInts(defn) /\ ~HasCycle THEN SumSeq(defn) ELSE 0,
                                    minv |-> IF AllInts(defn) /\ defn # <<>> /\ ~HasCycle THEN MinInt(defn) ELSE 0,
                                    maxv |-> IF AllInts(defn) /\ defn # <<>> /\ ~HasCycle THEN MaxInt(defn) ELSE 0,
                                    pos3 |-> IF HasCycle THEN 0 ELSE FirstPos(defn, I(3))])>>)

Next == /\ phase = "gen" /\ phase' = "done" /\ UNCHANGED <<pipe, n>>
        /\ WellFormed(pipe, TRUE)
        /\ Check
=============================================================================
