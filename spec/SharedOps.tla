----------------------------- MODULE SharedOps -----------------------------
(***************************************************************************)
(* The atomic meaning of operations on shared lists, and the question      *)
(* whether observations are explained by some one-at-a-time order.  Used   *)
(* by Shared.tla (model checking of the lock steps) and Trace_Shared.tla   *)
(* (rounds recorded from real threads).                                    *)
(***************************************************************************)
EXTENDS Naturals, Integers, Sequences, FiniteSets, TLC

(***************************************************************************)
(* Atomic meaning.  A container is a sequence of integers; an operation is *)
(* [k, c (container), d (second container or 0), i, v]; results: RI(n),    *)
(* RN (null), RE (an error is thrown)                                      *)
(***************************************************************************)
RI(n) == [t |-> "i", v |-> n]
RN == [t |-> "n", v |-> 0]
RE == [t |-> "e", v |-> 0]
RP == [t |-> "panic", v |-> 0]

InsertAt(xs, i, v) == SubSeq(xs, 1, i) \o <<v>> \o SubSeq(xs, i + 1, Len(xs))     \* i: 0-based position
RemoveAt(xs, i) == SubSeq(xs, 1, i) \o SubSeq(xs, i + 2, Len(xs))

\* ascending order (insertion sort)
RECURSIVE AscSeq(_)
AscSeq(xs) == IF xs = <<>> THEN <<>>
               ELSE LET m == CHOOSE i \in 1 .. Len(xs) : \A j \in 1 .. Len(xs) : xs[i] <= xs[j] IN
                    <<xs[m]>> \o AscSeq(RemoveAt(xs, m - 1))

\* mem: container id -> contents.  Returns [mem, res]
Apply(mem, op) ==
    LET xs == mem[op.c] IN
    CASE op.k = "push"   -> [mem |-> [mem EXCEPT ![op.c] = Append(xs, op.v)], res |-> RN]
      [] op.k = "pop"    -> IF xs = <<>> THEN [mem |-> mem, res |-> RN]
                            ELSE [mem |-> [mem EXCEPT ![op.c] = SubSeq(xs, 1, Len(xs) - 1)], res |-> RI(xs[Len(xs)])]
      [] op.k = "clear"  -> [mem |-> [mem EXCEPT ![op.c] = <<>>], res |-> RN]
      [] op.k = "get"    -> [mem |-> mem, res |-> IF op.i < Len(xs) THEN RI(xs[op.i + 1]) ELSE RN]
      [] op.k = "size"   -> [mem |-> mem, res |-> RI(Len(xs))]
      [] op.k = "insert" -> IF op.i > Len(xs) THEN [mem |-> mem, res |-> RE]
                            ELSE [mem |-> [mem EXCEPT ![op.c] = InsertAt(xs, op.i, op.v)], res |-> RN]
      [] op.k = "remove" -> IF op.i >= Len(xs) THEN [mem |-> mem, res |-> RE]
                            ELSE [mem |-> [mem EXCEPT ![op.c] = RemoveAt(xs, op.i)], res |-> RI(xs[op.i + 1])]
      [] op.k = "removeval" ->      \* remove the entry with this value (how a map removes a key), return it; null if absent
            (LET H == {i \in 1 .. Len(xs) : xs[i] = op.v} IN
             IF H = {} THEN [mem |-> mem, res |-> RN]
             ELSE LET i == CHOOSE i \in H : \A j \in H : i <= j IN
                  [mem |-> [mem EXCEPT ![op.c] = RemoveAt(xs, i - 1)], res |-> RI(op.v)])
      [] op.k = "sort"   -> [mem |-> [mem EXCEPT ![op.c] = AscSeq(xs)], res |-> RN]
      [] op.k = "fill"   -> [mem |-> [mem EXCEPT ![op.c] = [i \in 1 .. Len(xs) |-> op.v]], res |-> RN]
      [] op.k = "extend" -> [mem |-> [mem EXCEPT ![op.c] = xs \o mem[op.d]], res |-> RN]
      [] op.k = "swap"   -> [mem |-> [mem EXCEPT ![op.c] = mem[op.d], ![op.d] = xs], res |-> RN]

(***************************************************************************)
(* Explains(scripts, obs, mem0, final): is there an order of all           *)
(* operations, each thread's own order kept, that produces exactly the     *)
(* observed results and the final contents?                                *)
(***************************************************************************)
RECURSIVE Lin(_, _, _, _, _)
Lin(scripts, obs, pcs, mem, final) ==
    IF \A t \in DOMAIN scripts : pcs[t] > Len(scripts[t]) THEN mem = final
    ELSE \E t \in DOMAIN scripts :
            /\ pcs[t] <= Len(scripts[t])
            /\ LET r == Apply(mem, scripts[t][pcs[t]]) IN
               /\ r.res = obs[t][pcs[t]]
               /\ Lin(scripts, obs, [pcs EXCEPT ![t] = @ + 1], r.mem, final)

Explains(scripts, obs, mem0, final) == Lin(scripts, obs, [t \in DOMAIN scripts |-> 1], mem0, final)

=============================================================================
