------------------------------ MODULE KotoCore ------------------------------
(***************************************************************************)
(* The Koto source language as an abstract machine (CEK style).            *)
(*                                                                         *)
(* A configuration is one record                                          *)
(*    ctl   what the machine is doing: evaluating a node ("ev"), returning *)
(*          a value to the continuation ("rt"), completing abruptly        *)
(*          ("brk" "cnt" "ret" "thr"), or finished ("done")                *)
(*    env   the locals of the current function frame (name -> value)       *)
(*    kont  continuation frames, innermost first                           *)
(*    store the heap: lists, maps, closures, generators, iterators         *)
(*    out   printed lines                                                  *)
(*    exp   the module's exports map (names in insertion order + values)   *)
(*    n     steps taken (fuel)                                             *)
(*    gh    ghost observations used by the invariants                      *)
(*                                                                         *)
(* Step(c) is the deterministic transition function; Next == c' = Step(c). *)
(* Each rule cites the section of docs/language_guide.md it encodes.       *)
(* Where the guide is silent the machine stops in the absorbing state      *)
(* done/"unspec" (such programs are discarded by the checks, never         *)
(* reported).                                                              *)
(***************************************************************************)
EXTENDS Values, Functions, FiniteSets

EmptyEnv == [x \in {} |-> VNull]
Bind(env, name, v) == IF SubSeq(name, 1, 1) = "_" THEN env ELSE (name :> v) @@ env
Has(env, name) == name \in DOMAIN env

Push(c, f)  == [c EXCEPT !.kont = <<f>> \o @]
Pop(c)      == [c EXCEPT !.kont = Tail(@)]
Top(c)      == Head(c.kont)
Ev(c, node) == [c EXCEPT !.ctl = [m |-> "ev", n |-> node]]
Rt(c, v)    == [c EXCEPT !.ctl = [m |-> "rt", v |-> v]]
Unspec(c, why) == [c EXCEPT !.ctl = [m |-> "done", st |-> "unspec", why |-> why]]
(* Runtime error (guide: Error Handling): class "runtime", text unspecified. `kind` is a ghost
   tag used only by diagnostics. *)
RtErr(c, kind) == [c EXCEPT !.ctl = [m |-> "thr", cls |-> "runtime", v |-> VEStr, kind |-> kind,
                                      trace |-> <<>>]]
Throw(c, v)    == [c EXCEPT !.ctl = [m |-> "thr", cls |-> "thrown", v |-> v, kind |-> "throw",
                                      trace |-> <<>>]]
(* value or bottom: a bottom produced by arithmetic outside the exact window *)
RtW(c, v) == IF IsBot(v) THEN Unspec(c, "window") ELSE Rt(c, v)

Alloc(c, obj) == [c EXCEPT !.store = Append(@, obj)]
NewAddr(c) == Len(c.store) + 1

(***************************************************************************)
(* Heap objects                                                            *)
(*   [k |-> "list", v |-> Seq(Value)]                                      *)
(*   [k |-> "map",  ks |-> Seq(Value), vs |-> Seq(Value), meta |-> ...]    *)
(*   [k |-> "clo",  node, caps, defs]                                      *)
(***************************************************************************)
IsList(c, v) == v.t = "ref" /\ c.store[v.v].k = "list"
IsMap(c, v)  == v.t = "ref" /\ c.store[v.v].k = "map"

(***************************************************************************)
(* Structural equality (guide: Booleans; core_lib docs).  Returns          *)
(* "t" / "f" / "u" (unspecified: functions, bottoms, too deep).            *)
(***************************************************************************)
RECURSIVE ValEq(_, _, _, _)
RECURSIVE SeqEq(_, _, _, _, _)
SeqEq(st, a, b, i, d) ==
    IF i > Len(a) THEN "t"
    ELSE LET r == ValEq(st, a[i], b[i], d) IN
         IF r = "t" THEN SeqEq(st, a, b, i + 1, d) ELSE r
RECURSIVE MapEq(_, _, _, _, _)
KeyEq(a, b) == IF IsNum(a) /\ IsNum(b) THEN NumCmp(a, b) = 0 ELSE a.t = b.t /\ a = b
KeyIndex(ks, k) == LET S == {i \in 1 .. Len(ks) : KeyEq(ks[i], k)} IN
                   IF S = {} THEN 0 ELSE CHOOSE i \in S : TRUE
(* hashable values (guide: Map Key Types): immutable values; tuples of immutable values *)
RECURSIVE Hashable(_)
Hashable(v) == CASE v.t \in {"null", "bool", "int", "flt", "str", "rng"} -> TRUE
                 [] v.t = "tup" -> \A i \in 1 .. Len(v.v) : Hashable(v.v[i])
                 [] OTHER -> FALSE
KeyOk(v) == Hashable(v) /\ (v.t = "tup" => \A i \in 1 .. Len(v.v) : v.v[i].t # "flt")
MapEq(st, ma, mb, i, d) ==   \* same key set, equal values; order does not matter
    IF i > Len(ma.ks) THEN "t"
    ELSE LET j == KeyIndex(mb.ks, ma.ks[i]) IN
         IF j = 0 THEN "f"
         ELSE LET r == ValEq(st, ma.vs[i], mb.vs[j], d) IN
              IF r = "t" THEN MapEq(st, ma, mb, i + 1, d) ELSE r
ValEq(st, a, b, d) ==
    IF d = 0 THEN "u"
    ELSE IF a.t \in {"bot", "estr", "fn", "itr", "iout"} \/ b.t \in {"bot", "estr", "fn", "itr", "iout"} THEN "u"
    ELSE IF IsNum(a) /\ IsNum(b) THEN     \* NaN: outside the guide (and outside property C14's laws)
        (LET r == NumCmp(a, b) IN IF r = 2 THEN "u" ELSE IF r = 0 THEN "t" ELSE "f")
    ELSE IF a.t # b.t THEN "f"
    ELSE CASE a.t = "null" -> "t"
           [] a.t = "bool" -> (IF a.v = b.v THEN "t" ELSE "f")
           [] a.t = "str"  -> (IF a.v = b.v THEN "t" ELSE "f")
           [] a.t = "rng"  -> (IF a.a = b.a /\ a.b = b.b /\ a.inc = b.inc THEN "t"
                               ELSE IF (IF a.inc THEN a.b + 1 ELSE a.b) = (IF b.inc THEN b.b + 1 ELSE b.b)
                                       /\ a.a = b.a THEN "u" ELSE "f")
           [] a.t = "tup"  -> (IF Len(a.v) # Len(b.v) THEN "f" ELSE SeqEq(st, a.v, b.v, 1, d - 1))
           [] a.t = "ref"  ->
                LET oa == st[a.v]  ob == st[b.v] IN
                IF oa.k # ob.k THEN "f"
                ELSE IF oa.k = "list" THEN
                    (IF Len(oa.v) # Len(ob.v) THEN "f" ELSE SeqEq(st, oa.v, ob.v, 1, d - 1))
                ELSE IF oa.meta # <<>> \/ ob.meta # <<>> THEN "u"
                ELSE IF Len(oa.ks) # Len(ob.ks) THEN "f" ELSE MapEq(st, oa, ob, 1, d - 1)

(***************************************************************************)
(* Display (what print / interpolation show).  Observable() says whether   *)
(* the text is fixed by the documentation.                                 *)
(***************************************************************************)
RECURSIVE Observable(_, _, _)
Observable(st, v, d) ==
    IF d = 0 THEN FALSE
    ELSE CASE v.t \in {"null", "bool", "int", "flt", "fsp", "str", "rng"} -> TRUE
           [] v.t \in {"bot", "estr", "fn", "itr", "out", "end", "spr", "unimpl"} -> FALSE
           [] v.t = "dstr" -> TRUE
           [] v.t = "iout" -> v.v.t \in {"null", "bool", "int", "flt", "str"}
           [] v.t = "tup" -> \A i \in 1 .. Len(v.v) : Observable(st, v.v[i], d - 1)
           [] v.t = "ref" ->
                LET o == st[v.v] IN
                IF o.k = "list" THEN \A i \in 1 .. Len(o.v) : Observable(st, o.v[i], d - 1)
                ELSE o.meta = <<>> /\ \A i \in 1 .. Len(o.vs) :
                        Observable(st, o.vs[i], d - 1) /\ Observable(st, o.ks[i], d - 1)

RECURSIVE Disp(_, _, _)
RECURSIVE DispSeq(_, _, _)
DispSeq(st, s, i) ==
    IF i > Len(s) THEN ""
    ELSE Disp(st, s[i], TRUE) \o (IF i < Len(s) THEN ", " ELSE "") \o DispSeq(st, s, i + 1)
RECURSIVE DispEntries(_, _, _)
DispEntries(st, o, i) ==
    IF i > Len(o.ks) THEN ""
    ELSE (IF o.ks[i].t = "str" THEN o.ks[i].v ELSE Disp(st, o.ks[i], TRUE)) \o ": " \o Disp(st, o.vs[i], TRUE)
         \o (IF i < Len(o.ks) THEN ", " ELSE "")
         \o DispEntries(st, o, i + 1)
Disp(st, v, q) ==
    CASE v.t = "null" -> "null"
      [] v.t = "bool" -> (IF v.v THEN "true" ELSE "false")
      [] v.t \in {"int", "flt", "fsp"} -> DisplayNum(v)
      [] v.t = "str" -> (IF q THEN "'" \o v.v \o "'" ELSE v.v)
      [] v.t = "dstr" -> v.v
      [] v.t = "rng" -> DisplayRng(v)
      [] v.t = "iout" -> "IteratorOutput(" \o Disp(st, v.v, FALSE) \o ")"     \* guide: Iterators
      [] v.t = "tup" -> "(" \o DispSeq(st, v.v, 1) \o ")"
      [] v.t = "ref" -> LET o == st[v.v] IN
                        IF o.k = "list" THEN "[" \o DispSeq(st, o.v, 1) \o "]"
                        ELSE "{" \o DispEntries(st, o, 1) \o "}"

TypeName(c, v) ==
    CASE v.t = "null" -> "Null"
      [] v.t = "bool" -> "Bool"
      [] v.t \in {"int", "flt", "fsp"} -> "Number"
      [] v.t \in {"str", "estr"} -> "String"
      [] v.t = "tup" -> "Tuple"
      [] v.t = "rng" -> "Range"
      [] v.t = "fn" -> "Function"
      [] v.t = "itr" -> "Iterator"
      [] v.t = "iout" -> "IteratorOutput"
      [] v.t = "ref" -> (IF c.store[v.v].k = "list" THEN "List" ELSE "Map")
      [] v.t \in {"bot", "out", "end", "spr", "unimpl", "dstr"} -> "?"

(***************************************************************************)
(* Sub-expressions of the strict node kinds, in evaluation order           *)
(* (guide: left to right).                                                 *)
(***************************************************************************)
StrictKinds == {"bin", "neg", "not", "list", "tuple", "map", "range", "idx", "asg", "opasg", "iasg",
                "iopasg", "istr", "core", "mcall", "app", "throw", "dot", "dasg", "dopasg", "masg",
                "yield", "spread", "let", "mlet"}

Subs(node) ==
    CASE node.k = "bin" -> <<node.a, node.b>>
      [] node.k \in {"neg", "not"} -> <<node.a>>
      [] node.k \in {"list", "tuple", "istr"} -> node.xs
      [] node.k = "map" -> node.vs \o node.mvs
      [] node.k = "range" -> <<node.a, node.b>>
      [] node.k = "idx" -> <<node.c, node.i>>
      [] node.k \in {"asg", "opasg", "throw", "masg", "yield", "spread", "let", "mlet"} -> <<node.e>>
      [] node.k \in {"iasg", "iopasg"} -> <<node.c, node.i, node.e>>
      [] node.k = "dot" -> <<node.c>>
      [] node.k \in {"dasg", "dopasg"} -> <<node.c, node.e>>
      [] node.k = "core" -> node.args
      [] node.k = "mcall" -> <<node.c>> \o node.args
      [] node.k = "app" -> <<node.f>> \o node.args

(***************************************************************************)
(* Binary arithmetic including the container joins (guide: Joining Lists,  *)
(* Joining Tuples, Strings, Joining Maps).  Returns a configuration.       *)
(***************************************************************************)
RECURSIVE MapJoin(_, _, _, _, _)
MapJoin(ks, vs, ks2, vs2, i) ==   \* insert entries of (ks2, vs2) into (ks, vs): update in place or append
    IF i > Len(ks2) THEN [ks |-> ks, vs |-> vs]
    ELSE LET j == KeyIndex(ks, ks2[i]) IN
         IF j = 0 THEN MapJoin(Append(ks, ks2[i]), Append(vs, vs2[i]), ks2, vs2, i + 1)
         ELSE MapJoin(ks, [vs EXCEPT ![j] = vs2[i]], ks2, vs2, i + 1)

BinOp(c, op, a, b) ==
    IF IsBot(a) \/ IsBot(b) THEN Unspec(c, "bot-operand")
    ELSE IF IsNum(a) /\ IsNum(b) THEN RtW(c, Arith(op, a, b))
    ELSE IF op = "+" /\ a.t = "str" /\ b.t = "str" THEN Rt(c, VStr(a.v \o b.v))
    ELSE IF op = "+" /\ a.t = "tup" /\ b.t = "tup" THEN Rt(c, VTup(a.v \o b.v))
    ELSE IF op = "+" /\ IsList(c, a) /\ IsList(c, b) THEN
        Rt(Alloc(c, [k |-> "list", v |-> c.store[a.v].v \o c.store[b.v].v]), VRef(NewAddr(c)))
    ELSE IF op = "+" /\ IsMap(c, a) /\ IsMap(c, b) THEN
        (IF c.store[a.v].meta # <<>> \/ c.store[b.v].meta # <<>> THEN Unspec(c, "meta-join")
         ELSE LET oa == c.store[a.v]  ob == c.store[b.v]
                  j == MapJoin(oa.ks, oa.vs, ob.ks, ob.vs, 1) IN
              Rt(Alloc(c, [k |-> "map", ks |-> j.ks, vs |-> j.vs, meta |-> <<>>]), VRef(NewAddr(c))))
    ELSE IF a.t = "estr" \/ b.t = "estr" THEN Unspec(c, "estr-operand")
    ELSE RtErr(c, "binop-types")

(***************************************************************************)
(* Comparison (guide: Booleans; Comparison Operators).  Result: "t" "f"    *)
(* "u" (unspecified) or "e" (runtime error: unordered kinds).              *)
(***************************************************************************)
Less(a, b, orEq) ==
    IF IsNum(a) /\ IsNum(b) THEN
        LET r == NumCmp(a, b) IN
        IF r = 2 THEN "u" ELSE IF r < 0 \/ (orEq /\ r = 0) THEN "t" ELSE "f"
    ELSE IF a.t = "str" /\ b.t = "str" THEN
        LET r == StrCmp(a.v, b.v) IN IF r < 0 \/ (orEq /\ r = 0) THEN "t" ELSE "f"
    ELSE IF a.t \in {"bot", "estr"} \/ b.t \in {"bot", "estr"} THEN "u"
    ELSE IF a.t = "tup" \/ b.t = "tup" \/ a.t = "ref" \/ b.t = "ref" THEN
        (IF a.t = b.t THEN "u" ELSE "e")     \* container ordering: not in the guide
    ELSE "e"

Compare(c, op, a, b) ==
    CASE op = "==" -> ValEq(c.store, a, b, 6)
      [] op = "!=" -> LET r == ValEq(c.store, a, b, 6) IN IF r = "t" THEN "f" ELSE IF r = "f" THEN "t" ELSE r
      [] op = "<"  -> Less(a, b, FALSE)
      [] op = "<=" -> Less(a, b, TRUE)
      [] op = ">"  -> Less(b, a, FALSE)
      [] op = ">=" -> Less(b, a, TRUE)

(***************************************************************************)
(* Indexing and slicing (guide: Lists, Tuples, String Indexing, Entry      *)
(* Order, Ranges, Slices).                                                 *)
(***************************************************************************)
Min(a, b) == IF a < b THEN a ELSE b
(* Bounds [lo, hi) of a slice of a container of size n by range r; "e" if out of bounds. *)
SliceBounds(r, n) ==
    LET lo == r.a
        hi == IF r.inc THEN r.b + 1 ELSE r.b
    IN [lo |-> lo, hi |-> hi]

IndexInto(c, cv, iv) ==
    IF IsBot(cv) \/ IsBot(iv) THEN Unspec(c, "bot-index")
    ELSE IF iv.t = "int" THEN
        (IF cv.t = "tup" THEN
            (IF iv.v >= 0 /\ iv.v < Len(cv.v) THEN Rt(c, cv.v[iv.v + 1]) ELSE RtErr(c, "index"))
         ELSE IF IsList(c, cv) THEN
            (LET l == c.store[cv.v].v IN
             IF iv.v >= 0 /\ iv.v < Len(l) THEN Rt(c, l[iv.v + 1]) ELSE RtErr(c, "index"))
         ELSE IF IsMap(c, cv) THEN
            (LET o == c.store[cv.v] IN
             IF o.meta # <<>> THEN Unspec(c, "meta-index")
             ELSE IF iv.v >= 0 /\ iv.v < Len(o.ks) THEN Rt(c, VTup(<<o.ks[iv.v + 1], o.vs[iv.v + 1]>>))
             ELSE RtErr(c, "index"))
         ELSE IF cv.t = "str" THEN
            (IF iv.v >= 0 /\ iv.v < Len(cv.v) THEN Rt(c, VStr(SubSeq(cv.v, iv.v + 1, iv.v + 1)))
             ELSE RtErr(c, "index"))
         ELSE IF cv.t = "rng" THEN
            (IF cv.a <= cv.b /\ iv.v >= 0 /\ iv.v < RngLen(cv) THEN Rt(c, VInt(cv.a + iv.v))
             ELSE IF iv.v < 0 \/ cv.a <= cv.b THEN RtErr(c, "index") ELSE Unspec(c, "desc-range-index"))
         ELSE IF cv.t = "estr" THEN Unspec(c, "estr-index")
         ELSE RtErr(c, "not-indexable"))
    ELSE IF iv.t = "rng" THEN
        (LET sb == SliceBounds(iv, 0)
             n  == IF cv.t = "tup" THEN Len(cv.v)
                   ELSE IF IsList(c, cv) THEN Len(c.store[cv.v].v)
                   ELSE IF cv.t = "str" THEN Len(cv.v) ELSE -1
         IN IF n < 0 THEN (IF cv.t \in {"rng", "estr"} \/ IsMap(c, cv) THEN Unspec(c, "slice-kind")
                           ELSE RtErr(c, "not-sliceable"))
            ELSE IF sb.lo < 0 \/ sb.hi < sb.lo THEN Unspec(c, "slice-odd")   \* descending / negative: abstain
            ELSE IF sb.hi > n THEN Unspec(c, "slice-clamp")                   \* guide silent on clamping
            ELSE IF cv.t = "tup" THEN Rt(c, VTup(SubSeq(cv.v, sb.lo + 1, sb.hi)))
            ELSE IF cv.t = "str" THEN Rt(c, VStr(SubSeq(cv.v, sb.lo + 1, sb.hi)))
            ELSE Rt(Alloc(c, [k |-> "list", v |-> SubSeq(c.store[cv.v].v, sb.lo + 1, sb.hi)]),
                    VRef(NewAddr(c))))
    ELSE IF iv.t = "estr" THEN Unspec(c, "estr-index")
    ELSE IF cv.t \in {"tup", "str", "rng", "ref"} THEN RtErr(c, "index-type")
    ELSE RtErr(c, "not-indexable")

(* c[i] = v  (guide: Lists; Entry Order for maps).  Value of the expression: unspecified. *)
IndexAssign(c, cv, iv, v) ==
    IF IsBot(cv) \/ IsBot(iv) THEN Unspec(c, "bot-index")
    ELSE IF IsList(c, cv) /\ iv.t = "int" THEN
        (LET l == c.store[cv.v].v IN
         IF iv.v >= 0 /\ iv.v < Len(l)
            \* guide, Assigning Variables: the result of an assignment is the value that's being assigned
            THEN Rt([c EXCEPT !.store[cv.v].v[iv.v + 1] = v], v)
            ELSE RtErr(c, "index"))
    ELSE IF IsList(c, cv) /\ iv.t = "rng" THEN Unspec(c, "slice-assign")
    ELSE IF IsMap(c, cv) THEN
        \* guide, Entry Order: an entry is replaced by assigning a key/value tuple to its index
        (LET o == c.store[cv.v] IN
         IF o.meta # <<>> \/ iv.t # "int" THEN Unspec(c, "map-index-assign")
         ELSE IF iv.v < 0 \/ iv.v >= Len(o.ks) THEN (IF iv.v < 0 THEN Unspec(c, "negative-index") ELSE RtErr(c, "index"))
         ELSE IF v.t # "tup" \/ Len(v.v) # 2 THEN (IF IsBot(v) THEN Unspec(c, "bot") ELSE RtErr(c, "entry-type"))
         ELSE IF ~KeyOk(v.v[1]) THEN Unspec(c, "key-kind")
         ELSE LET j == KeyIndex(o.ks, v.v[1]) IN
              IF j # 0 /\ j # iv.v + 1 THEN Unspec(c, "entry-key-used-elsewhere")     \* guide silent (an error in the code)
              ELSE Rt([c EXCEPT !.store[cv.v] = [o EXCEPT !.ks[iv.v + 1] = v.v[1], !.vs[iv.v + 1] = v.v[2]]], VBot))
    ELSE IF cv.t \in {"estr"} \/ iv.t = "estr" THEN Unspec(c, "estr")
    ELSE RtErr(c, "index-assign")

(***************************************************************************)
(* Map access (guide: Maps).  Missing key on a plain map: the guide shows  *)
(* only successful access; core library modules are reached through `.`    *)
(* too, so a missing key is an error ("not found") -- as `m.get` docs say. *)
(***************************************************************************)
MapGet(o, key) == LET j == KeyIndex(o.ks, key) IN IF j = 0 THEN [ok |-> FALSE] ELSE [ok |-> TRUE, v |-> o.vs[j]]
MapPut(o, key, v) == LET j == KeyIndex(o.ks, key) IN
                     IF j = 0 THEN [o EXCEPT !.ks = Append(@, key), !.vs = Append(@, v)]
                     ELSE [o EXCEPT !.vs[j] = v]

(***************************************************************************)
(* Objects (guide: Objects and Metamaps).  A map's metamap is              *)
(* [ks |-> Seq(STRING), vs |-> Seq(Value)] (metakey names like "@+", "@r+",*)
(* "@==", "@type", "@base", "@meta name") or <<>> when it has none.        *)
(***************************************************************************)
MetaIdx(o, key) == IF o.meta = <<>> THEN 0
                   ELSE LET S == {i \in 1 .. Len(o.meta.ks) : o.meta.ks[i] = key} IN IF S = {} THEN 0 ELSE CHOOSE i \in S : TRUE
HasMeta(c, v, key) == IsMap(c, v) /\ MetaIdx(c.store[v.v], key) # 0
MetaVal(c, v, key) == c.store[v.v].meta.vs[MetaIdx(c.store[v.v], key)]
IsObj(c, v) == IsMap(c, v) /\ c.store[v.v].meta # <<>>
VUnimpl == [t |-> "unimpl"]      \* koto.unimplemented

(* `.` access on an object: own data, then "@meta name" entries, then the @base chain (guide: @base, @meta) *)
RECURSIVE ObjLookup(_, _, _, _)
ObjLookup(c, v, name, d) ==
    IF d = 0 \/ ~IsMap(c, v) THEN [ok |-> FALSE]
    ELSE LET o == c.store[v.v]
             g == MapGet(o, VStr(name)) IN
         IF g.ok THEN g
         ELSE IF MetaIdx(o, "@meta " \o name) # 0 THEN [ok |-> TRUE, v |-> o.meta.vs[MetaIdx(o, "@meta " \o name)]]
         ELSE IF MetaIdx(o, "@base") # 0 THEN ObjLookup(c, o.meta.vs[MetaIdx(o, "@base")], name, d - 1)
         ELSE [ok |-> FALSE]

(* the type name of an object: its @type string, else "Map"; and the chain of @type names along @base *)
RECURSIVE TypeChain(_, _, _)
TypeChain(c, v, d) ==
    IF d = 0 \/ ~IsMap(c, v) THEN {}
    ELSE LET o == c.store[v.v]
             own == IF MetaIdx(o, "@type") # 0 /\ o.meta.vs[MetaIdx(o, "@type")].t = "str"
                    THEN {o.meta.vs[MetaIdx(o, "@type")].v} ELSE {} IN
         own \cup (IF MetaIdx(o, "@base") # 0 THEN TypeChain(c, o.meta.vs[MetaIdx(o, "@base")], d - 1) ELSE {})
ObjTypeName(c, v) == LET o == c.store[v.v] IN
                     IF MetaIdx(o, "@type") # 0 /\ o.meta.vs[MetaIdx(o, "@type")].t = "str"
                     THEN o.meta.vs[MetaIdx(o, "@type")].v ELSE "Map"

(***************************************************************************)
(* for-loop iteration states over the built-in iterables (guide: Loops,    *)
(* Ranges, Unpacking in for loops).                                        *)
(***************************************************************************)
MakeIter(c, v) ==
    CASE v.t = "itr" -> [ok |-> TRUE, it |-> [k |-> "itr", a |-> v.v]]
      [] v.t = "rng" -> [ok |-> TRUE, it |-> [k |-> "rng", r |-> v, i |-> 1]]
      [] v.t = "tup" -> [ok |-> TRUE, it |-> [k |-> "seq", v |-> v.v, i |-> 1]]
      [] v.t = "str" -> [ok |-> TRUE, it |-> [k |-> "str", v |-> v.v, i |-> 1]]
      [] v.t = "ref" -> [ok |-> TRUE, it |-> [k |-> "ref", a |-> v.v, i |-> 1]]
      [] OTHER -> [ok |-> FALSE]

(* result: [more |-> BOOLEAN, v, it] *)
IterNext(c, it) ==
    CASE it.k = "rng" ->
            (IF it.r.a <= it.r.b /\ it.i <= RngLen(it.r)
                THEN [more |-> TRUE, v |-> VInt(RngAt(it.r, it.i)), it |-> [it EXCEPT !.i = @ + 1]]
                ELSE [more |-> FALSE])
      [] it.k = "seq" ->
            (IF it.i <= Len(it.v) THEN [more |-> TRUE, v |-> it.v[it.i], it |-> [it EXCEPT !.i = @ + 1]]
             ELSE [more |-> FALSE])
      [] it.k = "str" ->
            (IF it.i <= Len(it.v) THEN [more |-> TRUE, v |-> VStr(SubSeq(it.v, it.i, it.i)),
                                         it |-> [it EXCEPT !.i = @ + 1]]
             ELSE [more |-> FALSE])
      [] it.k = "ref" ->
            (LET o == c.store[it.a] IN
             IF o.k = "list" THEN
                (IF it.i <= Len(o.v) THEN [more |-> TRUE, v |-> o.v[it.i], it |-> [it EXCEPT !.i = @ + 1]]
                 ELSE [more |-> FALSE])
             ELSE (IF it.i <= Len(o.ks) THEN [more |-> TRUE, v |-> VTup(<<o.ks[it.i], o.vs[it.i]>>),
                                               it |-> [it EXCEPT !.i = @ + 1]]
                   ELSE [more |-> FALSE]))

(* Bind loop / multi-assignment targets element-wise (guide: Value Unpacking):
   missing => null, extras ignored, `_` ignored. *)
ElemsOf(c, v) ==       \* elements a value unpacks to; [ok |-> FALSE] when not statically known here
    CASE v.t = "tup" -> [ok |-> TRUE, s |-> v.v]
      [] v.t = "ref" /\ c.store[v.v].k = "list" -> [ok |-> TRUE, s |-> c.store[v.v].v]
      \* (an object may take part in unpacking through its own protocols -- @next, @iterator, @index, @size: not modelled here)
      [] v.t = "ref" /\ c.store[v.v].k = "map" /\ c.store[v.v].meta = <<>> ->
            [ok |-> TRUE, s |-> [i \in 1 .. Len(c.store[v.v].ks) |->
                                  VTup(<<c.store[v.v].ks[i], c.store[v.v].vs[i]>>)]]
      [] v.t = "rng" -> (IF RngLen(v) <= 64 /\ v.a <= v.b
                          THEN [ok |-> TRUE, s |-> [i \in 1 .. RngLen(v) |-> VInt(RngAt(v, i))]]
                          ELSE [ok |-> TRUE, s |-> <<>>])
      [] v.t = "str" -> [ok |-> TRUE, s |-> [i \in 1 .. Len(v.v) |-> VStr(SubSeq(v.v, i, i))]]
      [] v.t \in {"null", "bool", "int", "flt", "fsp"} -> [ok |-> TRUE, s |-> <<v>>]   \* x, y = 42
      [] OTHER -> [ok |-> FALSE]

RECURSIVE BindSeq(_, _, _, _)
BindSeq(env, names, s, i) ==
    IF i > Len(names) THEN env
    ELSE BindSeq(Bind(env, names[i], IF i <= Len(s) THEN s[i] ELSE VNull), names, s, i + 1)

(***************************************************************************)
(* Core library functions modelled here (docs/core_lib).                   *)
(***************************************************************************)
(* stable insertion sort of numbers or of strings (docs: list.sort); "u" when the kinds are mixed *)
SortKind(s) == IF \A i \in 1 .. Len(s) : IsNum(s[i]) /\ s[i].t # "fsp" THEN "num"
               ELSE IF \A i \in 1 .. Len(s) : s[i].t = "str" THEN "str" ELSE "mixed"
LessV(a, b) == IF IsNum(a) THEN NumCmp(a, b) < 0 ELSE StrCmp(a.v, b.v) < 0
RECURSIVE InsertSorted(_, _)
InsertSorted(sorted, x) ==       \* after every element that is not greater than x (stable)
    IF sorted = <<>> THEN <<x>>
    ELSE IF LessV(x, Head(sorted)) THEN <<x>> \o sorted
    ELSE <<Head(sorted)>> \o InsertSorted(Tail(sorted), x)
RECURSIVE KSortSeq(_, _)
KSortSeq(s, acc) == IF s = <<>> THEN acc ELSE KSortSeq(Tail(s), InsertSorted(acc, Head(s)))
(* permutation that sorts keys: indices in sorted order *)
RECURSIVE SortIdx(_, _, _)
InsertIdx(ks, sorted, i) ==
    LET RECURSIVE G(_)
        G(r) == IF r = <<>> THEN <<i>>
                ELSE IF LessV(ks[i], ks[Head(r)]) THEN <<i>> \o r ELSE <<Head(r)>> \o G(Tail(r))
    IN G(sorted)
SortIdx(ks, i, acc) == IF i > Len(ks) THEN acc ELSE SortIdx(ks, i + 1, InsertIdx(ks, acc, i))

(* deep_copy: an independent tree (docs: koto.deep_copy).  Result [store, v]. *)
RECURSIVE DeepCopy(_, _, _)
RECURSIVE DeepCopySeq(_, _, _, _, _)
DeepCopySeq(st, s, i, acc, d) ==
    IF i > Len(s) THEN [store |-> st, s |-> acc]
    ELSE LET r == DeepCopy(st, s[i], d) IN DeepCopySeq(r.store, s, i + 1, Append(acc, r.v), d)
DeepCopy(st, v, d) ==
    IF d = 0 THEN [store |-> st, v |-> VBot]
    ELSE CASE v.t = "tup" -> (LET r == DeepCopySeq(st, v.v, 1, <<>>, d - 1) IN [store |-> r.store, v |-> VTup(r.s)])
           [] v.t = "ref" ->
                (LET o == st[v.v] IN
                 IF o.k = "list" THEN
                    LET r == DeepCopySeq(st, o.v, 1, <<>>, d - 1) IN
                    [store |-> Append(r.store, [k |-> "list", v |-> r.s]), v |-> VRef(Len(r.store) + 1)]
                 ELSE IF o.meta # <<>> THEN [store |-> st, v |-> VBot]
                 ELSE LET r == DeepCopySeq(st, o.vs, 1, <<>>, d - 1) IN
                      [store |-> Append(r.store, [k |-> "map", ks |-> o.ks, vs |-> r.s, meta |-> <<>>]),
                       v |-> VRef(Len(r.store) + 1)])
           [] v.t \in {"fn", "itr"} -> [store |-> st, v |-> VBot]
           [] OTHER -> [store |-> st, v |-> v]

RECURSIVE SeqContains(_, _, _, _)
SeqContains(st, s, v, i) ==
    IF i > Len(s) THEN "f"
    ELSE LET r == ValEq(st, s[i], v, 6) IN
         IF r = "t" THEN "t" ELSE IF r = "u" THEN "u" ELSE SeqContains(st, s, v, i + 1)

RECURSIVE MetaCall(_, _, _, _, _)      \* defined below with the object dispatch (forward declaration)
CoreCall(c, node, vs) ==
    LET f == node.f IN
    CASE f = "print" /\ Len(vs) = 1 /\ HasMeta(c, vs[1], "@display") ->
            MetaCall(c, MetaVal(c, vs[1], "@display"), vs[1], <<>>, [t |-> "print"])
      [] f = "print" ->
            (IF Len(vs) # 1 THEN Unspec(c, "print-arity")
             ELSE IF ~Observable(c.store, vs[1], 6) THEN Unspec(c, "print-unobservable")
             ELSE Rt([c EXCEPT !.out = Append(@, Disp(c.store, vs[1], FALSE))], VNull))
      [] f = "size" ->
            (LET v == vs[1] IN
             CASE v.t = "tup" -> Rt(c, VInt(Len(v.v)))
               [] v.t = "str" -> Rt(c, VInt(Len(v.v)))
               [] v.t = "rng" -> (IF v.a <= v.b THEN Rt(c, VInt(RngLen(v))) ELSE Unspec(c, "desc-range-size"))
               [] v.t = "ref" -> (LET o == c.store[v.v] IN
                                  IF o.k = "list" THEN Rt(c, VInt(Len(o.v)))
                                  ELSE IF HasMeta(c, v, "@size") THEN MetaCall(c, MetaVal(c, v, "@size"), v, <<>>, [t |-> "val"])
                                  ELSE IF o.meta # <<>> THEN Unspec(c, "meta-size")
                                  ELSE Rt(c, VInt(Len(o.ks))))
               [] v.t \in {"bot", "estr"} -> Unspec(c, "size-bot")
               [] OTHER -> RtErr(c, "size-type"))
      [] f = "type" ->
            (IF IsBot(vs[1]) THEN Unspec(c, "type-bot")
             ELSE IF IsObj(c, vs[1]) THEN
                (IF ObjTypeName(c, vs[1]) = "Map" THEN Unspec(c, "type-of-object-without-@type")     \* guide: not said
                 ELSE Rt(c, VStr(ObjTypeName(c, vs[1]))))
             ELSE Rt(c, VStr(TypeName(c, vs[1]))))
      [] f = "assert" ->
            (IF vs[1].t = "bool" THEN (IF vs[1].v THEN Rt(c, VNull) ELSE RtErr(c, "assert"))
             ELSE IF vs[1].t \in {"bot"} THEN Unspec(c, "assert-bot") ELSE RtErr(c, "assert-type"))
      [] f = "assert_eq" ->
            (LET r == ValEq(c.store, vs[1], vs[2], 6) IN
             IF r = "u" THEN Unspec(c, "assert_eq-unspec")
             ELSE IF r = "t" THEN Rt(c, VNull) ELSE RtErr(c, "assert_eq"))
      [] f = "deep_copy" ->
            (LET r == DeepCopy(c.store, vs[1], 6) IN
             IF IsBot(r.v) THEN Unspec(c, "deep_copy-kind") ELSE Rt([c EXCEPT !.store = r.store], r.v))
      [] f = "copy" ->
            (LET v == vs[1] IN
             IF v.t = "ref" THEN
                (IF c.store[v.v].k = "map" /\ c.store[v.v].meta # <<>> THEN Unspec(c, "meta-copy")
                 ELSE Rt(Alloc(c, c.store[v.v]), VRef(NewAddr(c))))
             ELSE IF v.t \in {"itr", "bot", "fn"} THEN Unspec(c, "copy-kind")
             ELSE Rt(c, v))

(***************************************************************************)
(* Type hints (guide: Type Checks, Special Types).  "y" / "n" / "u".       *)
(***************************************************************************)
StripOpt(ty) == IF Len(ty) > 0 /\ SubSeq(ty, Len(ty), Len(ty)) = "?" THEN SubSeq(ty, 1, Len(ty) - 1) ELSE ty
IsOpt(ty) == Len(ty) > 0 /\ SubSeq(ty, Len(ty), Len(ty)) = "?"
TypeMatches(c, v, ty0) ==
    LET ty == StripOpt(ty0) IN
    IF IsBot(v) THEN "u"
    ELSE IF IsOpt(ty0) /\ v.t = "null" THEN "y"
    ELSE IF ty = "Any" THEN "y"
    ELSE IF IsObj(c, v) THEN
        \* guide: @type, @base -- type checks refer to base class @type entries when needed
        (IF ty \in {"Callable", "Indexable", "Iterable"} THEN "u"
         ELSE IF ty \in TypeChain(c, v, 4) THEN "y"
         ELSE IF ty = "Map" THEN "u" ELSE "n")
    ELSE IF ty = "Callable" THEN (IF v.t = "fn" THEN (IF c.store[v.v].node.gen THEN "u" ELSE "y") ELSE "n")
    ELSE IF ty = "Indexable" THEN
        (IF v.t \in {"tup", "str", "ref"} THEN "y" ELSE IF v.t \in {"rng", "estr"} THEN "u" ELSE "n")
    ELSE IF ty = "Iterable" THEN
        (IF v.t \in {"tup", "str", "ref", "rng", "itr"} THEN "y" ELSE IF v.t = "estr" THEN "u" ELSE "n")
    ELSE IF v.t = "fn" /\ ty \in {"Function", "Generator"} THEN "u"
    ELSE IF ty = TypeName(c, v) THEN "y" ELSE "n"

(***************************************************************************)
(* Patterns (guide: match, Value Unpacking, Unpacking Arguments).          *)
(*   [p |-> "wild"]  [p |-> "id", n]  [p |-> "lit", v (literal node)]      *)
(*   [p |-> "typed", n, ty]                                                *)
(*   [p |-> "tup", xs, rest \in {"none","first","last"}, rn]               *)
(*   [p |-> "map", ks, ns]                                                 *)
(* Result [r |-> "y" | "n" | "u", env].                                    *)
(***************************************************************************)
LitVal(node) ==
    CASE node.k = "null" -> VNull
      [] node.k = "bool" -> VBool(node.v)
      [] node.k = "int" -> VInt(node.v)
      [] node.k = "flt" -> VFlt(node.n, node.d)
      [] node.k = "str" -> VStr(node.v)

RECURSIVE MatchPat(_, _, _, _)
RECURSIVE MatchSeq(_, _, _, _, _, _)
MatchSeq(c, pats, vals, off, i, env) ==      \* pats[i] against vals[off + i]
    IF i > Len(pats) THEN [r |-> "y", env |-> env]
    ELSE LET m == MatchPat(c, pats[i], vals[off + i], env) IN
         IF m.r # "y" THEN m ELSE MatchSeq(c, pats, vals, off, i + 1, m.env)
RECURSIVE MatchKeys(_, _, _, _, _)
MatchKeys(c, p, o, i, env) ==
    IF i > Len(p.ks) THEN [r |-> "y", env |-> env]
    ELSE LET g == MapGet(o, VStr(p.ks[i])) IN
         IF ~g.ok THEN [r |-> "n", env |-> env] ELSE MatchKeys(c, p, o, i + 1, Bind(env, p.ns[i], g.v))
MatchPat(c, p, v, env) ==
    IF IsBot(v) THEN [r |-> "u", env |-> env]
    ELSE CASE p.p = "wild" -> [r |-> "y", env |-> env]
      [] p.p = "id" -> [r |-> "y", env |-> Bind(env, p.n, v)]
      [] p.p = "typed" -> (LET t == TypeMatches(c, v, p.ty) IN
                           [r |-> t, env |-> IF t = "y" THEN Bind(env, p.n, v) ELSE env])
      [] p.p = "lit" -> (LET e == ValEq(c.store, LitVal(p.v), v, 6) IN
                         [r |-> IF e = "t" THEN "y" ELSE IF e = "f" THEN "n" ELSE "u", env |-> env])
      [] p.p = "tup" ->
            (IF v.t = "tup" \/ IsList(c, v) THEN
                LET vals == IF v.t = "tup" THEN v.v ELSE c.store[v.v].v
                    n == Len(p.xs)  m == Len(vals)
                    \* a named rest of a tuple is a tuple (guide); of a list: not said
                    restv(s) == IF v.t = "tup" THEN VTup(s) ELSE VBot
                IN IF p.rest = "none" THEN
                      (IF m # n THEN [r |-> "n", env |-> env] ELSE MatchSeq(c, p.xs, vals, 0, 1, env))
                   ELSE IF m < n THEN [r |-> "n", env |-> env]
                   ELSE IF p.rest = "last" THEN
                      (LET r1 == MatchSeq(c, p.xs, vals, 0, 1, env) IN
                       IF r1.r # "y" \/ p.rn = "" THEN r1
                       ELSE [r |-> "y", env |-> Bind(r1.env, p.rn, restv(SubSeq(vals, n + 1, m)))])
                   ELSE
                      (LET r1 == MatchSeq(c, p.xs, vals, m - n, 1,
                                          IF p.rn = "" THEN env ELSE Bind(env, p.rn, restv(SubSeq(vals, 1, m - n)))) IN
                       r1)
             ELSE IF v.t \in {"null", "bool", "int", "flt", "fsp", "fn"} THEN [r |-> "n", env |-> env]
             ELSE [r |-> "u", env |-> env])       \* strings, ranges, maps, objects, iterators: not said
      [] p.p = "map" ->
            (IF IsMap(c, v) THEN
                (IF c.store[v.v].meta # <<>> THEN [r |-> "u", env |-> env]
                 ELSE MatchKeys(c, p, c.store[v.v], 1, env))
             ELSE IF v.t \in {"estr", "itr"} THEN [r |-> "u", env |-> env]
             ELSE [r |-> "n", env |-> env])

(***************************************************************************)
(* Function calls (guide: Functions, Advanced Functions, Generators).      *)
(***************************************************************************)
(* Bind positional / default / variadic / unpacked parameters.
   Result [ok |-> "y", env] or [ok |-> "n", kind] or [ok |-> "u"]. *)
RECURSIVE BindParams(_, _, _, _, _, _, _)
BindParams(c, env, params, defs, args, i, di) ==
    IF i > Len(params) THEN
        (IF i <= Len(args) THEN [ok |-> "n", kind |-> "too-many"] ELSE [ok |-> "y", env |-> env])
    ELSE LET p == params[i] IN
         IF p.kind = "var" THEN
            [ok |-> "y", env |-> Bind(env, p.n, VTup(IF i <= Len(args) THEN SubSeq(args, i, Len(args)) ELSE <<>>))]
         ELSE IF i <= Len(args) THEN
            (IF p.kind = "pat" THEN
                LET m == MatchPat(c, p.pat, args[i], env) IN
                IF m.r = "u" THEN [ok |-> "u"]
                ELSE IF m.r = "n" THEN [ok |-> "n", kind |-> "unpack-mismatch"]
                ELSE BindParams(c, m.env, params, defs, args, i + 1, di)
             ELSE IF c.checks /\ p.ty # "" /\ TypeMatches(c, args[i], p.ty) # "y" THEN
                (IF TypeMatches(c, args[i], p.ty) = "u" THEN [ok |-> "u"] ELSE [ok |-> "n", kind |-> "arg-type"])
             ELSE BindParams(c, Bind(env, p.n, args[i]), params, defs, args, i + 1,
                             IF p.kind = "def" THEN di + 1 ELSE di))
         ELSE IF p.kind = "def" THEN
            BindParams(c, Bind(env, p.n, defs[di]), params, defs, args, i + 1, di + 1)
         ELSE [ok |-> "n", kind |-> "too-few"]

(* Call a closure; `selfv` is the receiver for instance calls (guide: Maps and Self) or VBot. *)
CallClosure(c, fv, args, site, selfv) ==
    LET clo == c.store[fv.v]
        env0 == IF IsBot(selfv) THEN clo.caps ELSE ("self" :> selfv) @@ clo.caps
        b == BindParams(c, env0, clo.node.params, clo.defs, args, 1, 1)
    IN IF b.ok = "u" THEN Unspec(c, "bind-unspec")
       ELSE IF b.ok = "n" THEN RtErr(c, b.kind)
       ELSE IF clo.node.gen THEN
            \* guide: Generators -- calling a generator function creates a new, not yet started generator
            Rt(Alloc(c, [k |-> "gen", st |-> "new", env |-> b.env, kont |-> <<>>, body |-> clo.node.body,
                         ret |-> clo.node.ret]),
               VItr(NewAddr(c)))
       ELSE Ev([Push(c, [k |-> "call", env |-> c.env, site |-> site, ret |-> clo.node.ret])
                  EXCEPT !.env = b.env], clo.node.body)

(***************************************************************************)
(* Iterators (guide: Iterators, Generators).  A consumer pushes a frame    *)
(* that expects a signal [t |-> "out", v] or [t |-> "end"] and calls Pull. *)
(***************************************************************************)
SigOut(v) == [t |-> "out", v |-> v]
SigEnd    == [t |-> "end"]

RECURSIVE Pull(_, _)
Pull(c, a) ==
    LET o == c.store[a] IN
    CASE o.k = "it" ->
            (LET r == IterNext(c, o.it) IN
             IF r.more THEN Rt([c EXCEPT !.store[a].it = r.it], SigOut(r.v)) ELSE Rt(c, SigEnd))
      [] o.k = "gen" ->
            (IF o.st = "done" THEN Rt(c, SigEnd)
             ELSE IF o.st = "run" THEN Unspec(c, "generator-reentered")
             ELSE LET c1 == [Push(c, [k |-> "genb", a |-> a, env |-> c.env])
                               EXCEPT !.env = o.env, !.store[a].st = "run"] IN
                  IF o.st = "new" THEN Ev(c1, o.body)
                  ELSE Rt([c1 EXCEPT !.kont = o.kont \o @], VBot))     \* value of the `yield` expression: not said
      [] o.k \in {"each", "keep"} -> Pull(Push(c, [k |-> "adapt", a |-> a]), o.src)
      \* docs: iterator.zip -- pairs of corresponding values, until either input ends; iterator.chain -- the first input's
      \* values, then the second's.  The second input of zip is asked only when the first has given a value.
      [] o.k = "zip" -> Pull(Push(c, [k |-> "zipa", a |-> a]), o.src)
      [] o.k = "chain" -> (IF o.ph = "a" THEN Pull(Push(c, [k |-> "chaina", a |-> a]), o.src) ELSE Pull(c, o.src2))

(* Make an iterator object address for an iterable value; [ok, c, a]. *)
AsIter(c, v) ==
    IF v.t = "itr" THEN [ok |-> TRUE, c |-> c, a |-> v.v]
    ELSE LET mi == MakeIter(c, v) IN
         IF ~mi.ok \/ (v.t = "ref" /\ c.store[v.v].k = "map" /\ c.store[v.v].meta # <<>>) THEN [ok |-> FALSE]
         ELSE [ok |-> TRUE, c |-> Alloc(c, [k |-> "it", it |-> mi.it]), a |-> NewAddr(c)]

IterMethods == {"next", "each", "keep", "to_tuple", "to_list", "count", "sum", "iter", "fold", "zip", "chain"}

IterMethod(c, node, recv, args) ==
    LET m == node.m
        ai == AsIter(c, recv)
    IN IF ~ai.ok THEN Unspec(c, "iter-method-receiver")
       ELSE CASE m = "iter" -> Rt(ai.c, VItr(ai.a))
              [] m = "next" ->
                    (IF recv.t # "itr" THEN Unspec(c, "next-on-non-iterator") ELSE Pull(Push(ai.c, [k |-> "nextk", site |-> node.id]), ai.a))
              [] m \in {"each", "keep"} ->
                    (IF args[1].t # "fn" THEN Unspec(c, "adaptor-functor-kind")
                     ELSE Rt(Alloc(ai.c, [k |-> m, src |-> ai.a, f |-> args[1], site |-> node.id]), VItr(NewAddr(ai.c))))
              [] m \in {"zip", "chain"} ->
                    (LET bi == IF IsBot(args[1]) THEN [ok |-> FALSE] ELSE AsIter(ai.c, args[1]) IN
                     IF ~bi.ok THEN Unspec(c, "adaptor-operand-kind")
                     ELSE Rt(Alloc(bi.c, [k |-> m, src |-> ai.a, src2 |-> bi.a, ph |-> "a", site |-> node.id]), VItr(NewAddr(bi.c))))
              [] m \in {"to_tuple", "to_list", "count", "sum"} ->
                    Pull(Push(ai.c, [k |-> "collect", m |-> m, acc |-> <<>>, a |-> ai.a, site |-> node.id]), ai.a)
              [] m = "fold" ->
                    (IF args[2].t # "fn" THEN Unspec(c, "fold-functor-kind")
                     ELSE Pull(Push(ai.c, [k |-> "fold", acc |-> args[1], f |-> args[2], a |-> ai.a, ph |-> "pull", site |-> node.id]), ai.a))

(* method calls on containers: node.m with receiver vs[1] and arguments the rest *)
(* Which core-library module provides a method (docs/core_lib): a value's own module, then the iterator
   module for iterable values.  A method that neither provides is an error ("not found in module"). *)
IterModule == {"advance", "all", "any", "chain", "chunks", "consume", "count", "cycle", "each", "enumerate", "find", "flatten",
               "fold", "generate", "intersperse", "iter", "keep", "last", "max", "min", "min_max", "next", "next_back", "once",
               "peekable", "position", "product", "repeat", "reversed", "skip", "step", "sum", "take", "to_list", "to_map",
               "to_string", "to_tuple", "windows", "zip"}
ListModule == {"clear", "contains", "extend", "fill", "first", "get", "insert", "is_empty", "last", "pop", "push", "remove",
               "resize", "resize_with", "retain", "reverse", "sort", "swap", "to_tuple", "transform"}
MapModule == {"clear", "contains_key", "extend", "get", "get_index", "get_meta", "insert", "is_empty", "keys", "remove", "sort",
              "update", "values", "with_meta"}
TupleModule == {"contains", "first", "get", "is_empty", "last", "sort_copy", "to_list"}
HasMethod(c, v, m) ==
    CASE IsList(c, v) -> m \in ListModule \cup IterModule
      [] IsMap(c, v) -> m \in MapModule \cup IterModule
      [] v.t = "tup" -> m \in TupleModule \cup IterModule
      [] v.t = "itr" -> m \in IterModule
      [] OTHER -> TRUE          \* strings, numbers, ranges ...: not tabulated here
KnownNoMethod(c, v, m) ==       \* kinds whose modules are tabulated here or that have no such methods at all
    \/ (v.t \in {"ref", "tup", "itr"} /\ ~HasMethod(c, v, m))
    \/ v.t \in {"null", "bool"}            \* no `.` access at all on Null and Bool
    \/ (v.t = "rng" /\ m \in (ListModule \cup MapModule \cup TupleModule) \ IterModule
         /\ m \notin {"contains", "end", "expanded", "intersection", "is_inclusive", "start", "union"})   \* docs/core_lib/range.md
    \/ (v.t \in {"int", "flt"} /\ m \in ListModule \cup MapModule \cup TupleModule \cup IterModule
         /\ m \notin {"min", "max"})          \* the number module has its own min and max

MethodCall(c, node, vs) ==
    LET m == node.m
        recv == vs[1]
        args == Tail(vs)
    IN
    IF IsBot(recv) \/ recv.t = "estr" THEN Unspec(c, "bot-receiver")
    ELSE IF ~(IsMap(c, recv) /\ (c.store[recv.v].meta # <<>> \/ MapGet(c.store[recv.v], VStr(m)).ok)) /\ KnownNoMethod(c, recv, m)
        THEN RtErr(c, "no-such-method")
    ELSE IF recv.t = "itr" THEN
        (IF m \in IterMethods THEN IterMethod(c, node, recv, args) ELSE Unspec(c, "iterator-method"))
    ELSE IF recv.t = "iout" THEN
        (IF m = "get" THEN Rt(c, recv.v) ELSE Unspec(c, "iout-method"))
    ELSE IF IsObj(c, recv) /\ ~HasMeta(c, recv, "@access") /\ ObjLookup(c, recv, m, 4).ok THEN
        (LET fv == ObjLookup(c, recv, m, 4).v IN
         IF fv.t = "fn" THEN CallClosure(c, fv, args, node.id, recv) ELSE Unspec(c, "map-entry-call-kind"))
    ELSE IF m = "with_meta" /\ IsMap(c, recv) /\ Len(args) = 1 /\ IsMap(c, args[1]) THEN
        \* guide: Sharing Metamaps -- a map with the receiver's data and the argument's metamap
        Rt(Alloc(c, [c.store[recv.v] EXCEPT !.meta = c.store[args[1].v].meta]), VRef(NewAddr(c)))
    ELSE IF IsMap(c, recv) /\ c.store[recv.v].meta = <<>> /\ MapGet(c.store[recv.v], VStr(m)).ok THEN
        \* guide: Maps and Self -- a function stored in a map is called with the map as `self`
        (LET fv == MapGet(c.store[recv.v], VStr(m)).v IN
         IF fv.t = "fn" THEN CallClosure(c, fv, args, node.id, recv) ELSE Unspec(c, "map-entry-call-kind"))
    ELSE IF m \in (IterMethods \ {"to_tuple", "to_list", "next"}) /\ recv.t \in {"ref", "tup", "rng", "str"} THEN
        IterMethod(c, node, recv, args)
    ELSE IF IsList(c, recv) THEN
        (LET a == recv.v  l == c.store[recv.v].v IN
         CASE m = "push" -> Rt([c EXCEPT !.store[a].v = Append(@, args[1])], recv)
           [] m = "pop" -> (IF l = <<>> THEN Rt(c, VNull)
                            ELSE Rt([c EXCEPT !.store[a].v = SubSeq(@, 1, Len(@) - 1)], l[Len(l)]))
           [] m = "first" -> Rt(c, IF l = <<>> THEN VNull ELSE l[1])
           [] m = "last" -> Rt(c, IF l = <<>> THEN VNull ELSE l[Len(l)])
           [] m = "is_empty" -> Rt(c, VBool(l = <<>>))
           [] m = "clear" -> Rt([c EXCEPT !.store[a].v = <<>>], recv)
           [] m = "contains" -> (LET r == SeqContains(c.store, l, args[1], 1) IN
                                 IF r = "u" THEN Unspec(c, "contains-unspec") ELSE Rt(c, VBool(r = "t")))
           [] m = "get" -> (IF args[1].t # "int" THEN (IF IsBot(args[1]) THEN Unspec(c, "get-bot")
                                                       ELSE RtErr(c, "get-type"))
                            ELSE IF args[1].v < 0 THEN Unspec(c, "get-negative")
                            ELSE Rt(c, IF args[1].v < Len(l) THEN l[args[1].v + 1] ELSE VNull))
           [] m = "to_tuple" -> Rt(c, VTup(l))
           [] m = "to_list" -> Rt(Alloc(c, [k |-> "list", v |-> l]), VRef(NewAddr(c)))
           [] m = "extend" ->
                \* docs: list.extend -- appends the iterable's values; the argument may be the list itself
                (LET el == ElemsOf(c, args[1]) IN
                 IF ~el.ok \/ ~(args[1].t \in {"tup", "ref", "rng", "str"}) THEN Unspec(c, "extend-kind")
                 ELSE Rt([c EXCEPT !.store[a].v = @ \o el.s], recv))
           [] m = "sort" ->
                (IF args # <<>> THEN Unspec(c, "sort-with-key")
                 ELSE IF SortKind(l) = "mixed" THEN Unspec(c, "sort-mixed")
                 ELSE Rt([c EXCEPT !.store[a].v = KSortSeq(l, <<>>)], recv))
           [] m = "fill" -> Rt([c EXCEPT !.store[a].v = [i \in 1 .. Len(l) |-> args[1]]], recv)
           [] m = "swap" ->
                (IF ~IsList(c, args[1]) THEN (IF IsBot(args[1]) THEN Unspec(c, "swap-bot") ELSE RtErr(c, "swap-type"))
                 ELSE Rt([c EXCEPT !.store[a].v = c.store[args[1].v].v, !.store[args[1].v].v = l], VNull))
           [] m = "resize" ->
                (IF args[1].t # "int" \/ args[1].v < 0 THEN Unspec(c, "resize-arg")
                 ELSE LET n == args[1].v
                          fillv == IF Len(args) >= 2 THEN args[2] ELSE VNull IN
                      Rt([c EXCEPT !.store[a].v = IF n <= Len(l) THEN SubSeq(l, 1, n)
                                                   ELSE l \o [i \in 1 .. (n - Len(l)) |-> fillv]], recv))
           [] m = "reverse" -> Rt([c EXCEPT !.store[a].v = [i \in 1 .. Len(l) |-> l[Len(l) + 1 - i]]], recv)
           [] m = "insert" -> (IF args[1].t # "int" THEN (IF IsBot(args[1]) THEN Unspec(c, "insert-bot")
                                                          ELSE RtErr(c, "insert-type"))
                               ELSE IF args[1].v < 0 \/ args[1].v > Len(l) THEN
                                    (IF args[1].v < 0 THEN Unspec(c, "insert-negative") ELSE RtErr(c, "insert-index"))
                               ELSE Rt([c EXCEPT !.store[a].v =
                                           SubSeq(l, 1, args[1].v) \o <<args[2]>> \o SubSeq(l, args[1].v + 1, Len(l))],
                                       recv))
           [] m = "remove" -> (IF args[1].t # "int" THEN (IF IsBot(args[1]) THEN Unspec(c, "remove-bot")
                                                          ELSE RtErr(c, "remove-type"))
                               ELSE IF args[1].v < 0 THEN Unspec(c, "remove-negative")
                               ELSE IF args[1].v >= Len(l) THEN RtErr(c, "remove-index")
                               ELSE Rt([c EXCEPT !.store[a].v =
                                           SubSeq(l, 1, args[1].v) \o SubSeq(l, args[1].v + 2, Len(l))],
                                       l[args[1].v + 1])))
    ELSE IF IsMap(c, recv) THEN
        (LET a == recv.v  o == c.store[recv.v] IN
         IF o.meta # <<>> THEN Unspec(c, "meta-method")
         ELSE CASE m = "insert" ->
                (IF ~KeyOk(args[1]) THEN (IF Hashable(args[1]) \/ IsBot(args[1]) THEN Unspec(c, "key-kind") ELSE RtErr(c, "unhashable-key"))
                 ELSE LET old == MapGet(o, args[1]) IN
                      Rt([c EXCEPT !.store[a] = MapPut(o, args[1], args[2])], IF old.ok THEN old.v ELSE VNull))
           [] m = "get" ->
                (IF ~KeyOk(args[1]) THEN (IF Hashable(args[1]) \/ IsBot(args[1]) THEN Unspec(c, "key-kind") ELSE RtErr(c, "unhashable-key"))
                 ELSE LET r == MapGet(o, args[1]) IN Rt(c, IF r.ok THEN r.v ELSE VNull))
           [] m = "contains_key" ->
                (IF ~KeyOk(args[1]) THEN (IF Hashable(args[1]) \/ IsBot(args[1]) THEN Unspec(c, "key-kind") ELSE RtErr(c, "unhashable-key"))
                 ELSE Rt(c, VBool(MapGet(o, args[1]).ok)))
           [] m = "remove" ->
                (IF ~KeyOk(args[1]) THEN (IF Hashable(args[1]) \/ IsBot(args[1]) THEN Unspec(c, "key-kind") ELSE RtErr(c, "unhashable-key"))
                 ELSE LET j == KeyIndex(o.ks, args[1]) IN
                      IF j = 0 THEN Rt(c, VNull)
                      ELSE Rt([c EXCEPT !.store[a] =
                                  [o EXCEPT !.ks = SubSeq(o.ks, 1, j - 1) \o SubSeq(o.ks, j + 1, Len(o.ks)),
                                            !.vs = SubSeq(o.vs, 1, j - 1) \o SubSeq(o.vs, j + 1, Len(o.vs))]],
                              o.vs[j]))
           [] m = "is_empty" -> Rt(c, VBool(o.ks = <<>>))
           [] m = "clear" -> Rt([c EXCEPT !.store[a] = [o EXCEPT !.ks = <<>>, !.vs = <<>>]], recv)
           [] m = "keys" -> Rt(Alloc(c, [k |-> "it", it |-> [k |-> "seq", v |-> o.ks, i |-> 1]]), VItr(NewAddr(c)))
           [] m = "values" -> Rt(Alloc(c, [k |-> "it", it |-> [k |-> "seq", v |-> o.vs, i |-> 1]]), VItr(NewAddr(c)))
           [] m = "get_index" ->
                (IF args[1].t # "int" \/ args[1].v < 0 THEN Unspec(c, "get_index-arg")
                 ELSE Rt(c, IF args[1].v < Len(o.ks) THEN VTup(<<o.ks[args[1].v + 1], o.vs[args[1].v + 1]>>) ELSE VNull))
           [] m = "extend" ->
                \* docs: map.extend -- existing keys are updated in place, new keys are appended in order
                (IF ~IsMap(c, args[1]) \/ c.store[args[1].v].meta # <<>> THEN Unspec(c, "map-extend-kind")
                 ELSE LET o2 == c.store[args[1].v]
                          j == MapJoin(o.ks, o.vs, o2.ks, o2.vs, 1) IN
                      Rt([c EXCEPT !.store[a] = [o EXCEPT !.ks = j.ks, !.vs = j.vs]], recv))
           [] m = "sort" ->
                \* docs: map.sort -- entries sorted by key
                (IF args # <<>> THEN Unspec(c, "sort-with-key")
                 ELSE IF SortKind(o.ks) = "mixed" THEN Unspec(c, "sort-mixed")
                 ELSE LET idx == SortIdx(o.ks, 1, <<>>) IN
                      Rt([c EXCEPT !.store[a] = [o EXCEPT !.ks = [i \in 1 .. Len(idx) |-> o.ks[idx[i]]],
                                                         !.vs = [i \in 1 .. Len(idx) |-> o.vs[idx[i]]]]], recv))
           [] OTHER -> Unspec(c, "map-method"))
    ELSE IF recv.t = "tup" THEN
        (CASE m = "first" -> Rt(c, IF recv.v = <<>> THEN VNull ELSE recv.v[1])
           [] m = "last" -> Rt(c, IF recv.v = <<>> THEN VNull ELSE recv.v[Len(recv.v)])
           [] m = "contains" -> (LET r == SeqContains(c.store, recv.v, args[1], 1) IN
                                 IF r = "u" THEN Unspec(c, "contains-unspec") ELSE Rt(c, VBool(r = "t")))
           [] m = "to_list" -> Rt(Alloc(c, [k |-> "list", v |-> recv.v]), VRef(NewAddr(c)))
           [] m = "to_tuple" -> Rt(c, recv)
           [] m = "is_empty" -> Rt(c, VBool(recv.v = <<>>))
           [] m = "get" -> (IF args[1].t # "int" THEN (IF IsBot(args[1]) THEN Unspec(c, "get-bot")
                                                       ELSE RtErr(c, "get-type"))
                            ELSE IF args[1].v < 0 THEN Unspec(c, "get-negative")
                            ELSE Rt(c, IF args[1].v < Len(recv.v) THEN recv.v[args[1].v + 1] ELSE VNull))
           [] OTHER -> Unspec(c, "tuple-method"))
    ELSE IF recv.t \in {"rng", "str"} /\ m \in {"to_tuple", "to_list"} THEN IterMethod(c, node, recv, args)
    ELSE Unspec(c, "method-receiver")

(***************************************************************************)
(* Operator and protocol dispatch on objects (guide: Objects and Metamaps; *)
(* property C17).  MetaCall runs a metakey function with the object as     *)
(* `self`; the frame "metak" says what to do with its result.              *)
(***************************************************************************)
MetaCall(c, fv, selfv, args, then) ==
    IF fv.t # "fn" THEN Unspec(c, "metakey-not-a-function")
    ELSE CallClosure(Push(c, [k |-> "metak", then |-> then]), fv, args, 0, selfv)

OpKey(op) == "@" \o op
ROpKey(op) == "@r" \o op

(* arithmetic: left operand's @op first; if it lacks it, or throws koto.unimplemented, the right operand's @r op *)
ObjBin(c, node, a, b) ==
    IF HasMeta(c, a, OpKey(node.op)) THEN
        MetaCall(c, MetaVal(c, a, OpKey(node.op)), a, <<b>>, [t |-> "binl", op |-> node.op, a |-> a, b |-> b])
    ELSE IF HasMeta(c, b, ROpKey(node.op)) THEN
        MetaCall(c, MetaVal(c, b, ROpKey(node.op)), b, <<a>>, [t |-> "val"])
    ELSE IF IsMap(c, a) /\ IsMap(c, b) /\ node.op = "+" THEN Unspec(c, "meta-join")
    ELSE IF IsBot(a) \/ IsBot(b) THEN Unspec(c, "bot-operand")
    ELSE RtErr(c, "binop-types")

(* continue a comparison chain after link number f.i - 1 has been decided: r \in {"t", "f"} *)
CmpContinue(c0, f, v, r) ==
    IF r = "f" THEN Rt(c0, VFalse)
    ELSE IF f.i = Len(f.node.xs) THEN Rt(c0, VTrue)
    ELSE Ev(Push(c0, [f EXCEPT !.i = @ + 1, !.left = v]), f.node.xs[f.i + 1])

(* comparison with an object on the left: @==, @!=, @<, @<=, @>, @>=; missing !=, <=, >, >= are derived from
   @== and @< (guide: Comparison Operators) *)
ObjCompare(c0, f, a, v) ==
    LET op == f.node.ops[f.i - 1]
        K(mode) == [t |-> "cmpk", f |-> f, a |-> a, v |-> v, mode |-> mode]
        Call(key, mode) == MetaCall(c0, MetaVal(c0, a, key), a, <<v>>, K(mode)) IN
    IF HasMeta(c0, a, OpKey(op)) THEN Call(OpKey(op), "id")
    ELSE CASE op = "!=" -> (IF HasMeta(c0, a, "@==") THEN Call("@==", "neg") ELSE Unspec(c0, "object-equality-without-@=="))
           [] op = "==" -> Unspec(c0, "object-equality-without-@==")
           [] op = "<=" -> (IF HasMeta(c0, a, "@<") /\ HasMeta(c0, a, "@==") THEN Call("@<", "le2") ELSE RtErr(c0, "compare-types"))
           [] op = ">"  -> (IF HasMeta(c0, a, "@<") /\ HasMeta(c0, a, "@==") THEN Call("@<", "gt2") ELSE RtErr(c0, "compare-types"))
           [] op = ">=" -> (IF HasMeta(c0, a, "@<") THEN Call("@<", "neg") ELSE RtErr(c0, "compare-types"))
           [] op = "<"  -> RtErr(c0, "compare-types")

(* guide, Unpacking Iterable Values: "unpacking works with any iterable value".  An object that implements @next is asked
   once per target; the guide does not say whether it is asked again after it has signalled the end, so a null before the
   last target leaves the rest unspecified.  An object with @iterator (and no @next) is unpacked through the returned value. *)
MPull(c, node, it, got) ==
    IF Len(got) = Len(node.ns) THEN Rt([c EXCEPT !.env = BindSeq(@, node.ns, got, 1)], VBot)
    ELSE MetaCall(c, MetaVal(c, it, "@next"), it, <<>>, [t |-> "mnext", node |-> node, it |-> it, got |-> got])

(* the result of a metakey function arrives at its "metak" frame *)
MetaReturn(c0, then, v) ==
    CASE then.t \in {"val", "binl"} -> Rt(c0, v)
      [] then.t = "discard" -> Rt(c0, VBot)          \* compound assignment / index assignment: called for its effect
      [] then.t = "cmpk" ->
            (IF v.t # "bool" THEN Unspec(c0, "comparison-metakey-non-bool")
             ELSE CASE then.mode = "id" -> CmpContinue(c0, then.f, then.v, IF v.v THEN "t" ELSE "f")
                    [] then.mode = "neg" -> CmpContinue(c0, then.f, then.v, IF v.v THEN "f" ELSE "t")
                    [] then.mode = "le2" ->
                        (IF v.v THEN CmpContinue(c0, then.f, then.v, "t")
                         ELSE MetaCall(c0, MetaVal(c0, then.a, "@=="), then.a, <<then.v>>, [then EXCEPT !.mode = "id"]))
                    [] then.mode = "gt2" ->
                        (IF v.v THEN CmpContinue(c0, then.f, then.v, "f")
                         ELSE MetaCall(c0, MetaVal(c0, then.a, "@=="), then.a, <<then.v>>, [then EXCEPT !.mode = "neg"])))
      [] then.t = "print" ->
            (IF v.t # "str" THEN Unspec(c0, "display-non-string")
             ELSE Rt([c0 EXCEPT !.out = Append(@, v.v)], VNull))
      [] then.t = "istr" ->       \* an interpolated object: continue building the string with its @display text
            (IF v.t # "str" THEN Unspec(c0, "display-non-string")
             ELSE Rt(c0, [t |-> "dstr", v |-> v.v]))
      [] then.t = "iter" ->       \* @iterator returned an iterable: iterate over it
            Rt(c0, v)
      [] then.t = "next" ->       \* @next: null ends the iteration
            (IF v.t = "null" THEN Rt(c0, SigEnd) ELSE Rt(c0, SigOut(v)))
      [] then.t = "mnext" ->
            (IF IsBot(v) THEN Unspec(c0, "unpack-bot")
             ELSE IF v.t = "null" /\ Len(then.got) + 1 < Len(then.node.ns) THEN Unspec(c0, "unpack-after-end")
             ELSE MPull(c0, then.node, then.it, Append(then.got, v)))
      [] then.t = "miter" ->
            (LET el == ElemsOf(c0, v) IN
             IF ~el.ok \/ ~(v.t \in {"tup", "ref", "rng", "str"}) THEN Unspec(c0, "unpack-kind")
             ELSE Rt([c0 EXCEPT !.env = BindSeq(@, then.node.ns, el.s, 1)], VBot))

(***************************************************************************)
(* Apply: all operands of a strict node have been evaluated.               *)
(***************************************************************************)
RECURSIVE FlattenArgs(_, _)
FlattenArgs(vs, i) == IF i > Len(vs) THEN <<>>
                      ELSE (IF vs[i].t = "spr" THEN vs[i].v ELSE <<vs[i]>>) \o FlattenArgs(vs, i + 1)

RECURSIVE ConcatDisp(_, _, _)
ConcatDisp(st, vs, i) == IF i > Len(vs) THEN "" ELSE Disp(st, vs[i], FALSE) \o ConcatDisp(st, vs, i + 1)

Apply(c, node, vs) ==
    CASE node.k = "bin" -> (IF IsObj(c, vs[1]) \/ IsObj(c, vs[2]) THEN ObjBin(c, node, vs[1], vs[2])
                            ELSE BinOp(c, node.op, vs[1], vs[2]))
      [] node.k = "neg" ->
            (IF HasMeta(c, vs[1], "@negate") THEN MetaCall(c, MetaVal(c, vs[1], "@negate"), vs[1], <<>>, [t |-> "val"])
             ELSE IF IsObj(c, vs[1]) THEN RtErr(c, "neg-type")
             ELSE IF IsNum(vs[1]) THEN RtW(c, NumNeg(vs[1]))
             ELSE IF vs[1].t \in {"bot", "estr"} THEN Unspec(c, "neg-bot") ELSE RtErr(c, "neg-type"))
      [] node.k = "not" ->
            (IF IsBot(vs[1]) THEN Unspec(c, "not-bot") ELSE Rt(c, VBool(~Truthy(vs[1]))))
      [] node.k = "tuple" -> Rt(c, VTup(vs))
      [] node.k = "list" -> Rt(Alloc(c, [k |-> "list", v |-> vs]), VRef(NewAddr(c)))
      [] node.k = "map" ->
            (LET nd == Len(node.ks)
                 j == MapJoin(<<>>, <<>>, [i \in 1 .. nd |-> VStr(node.ks[i])], SubSeq(vs, 1, nd), 1)
                 meta == IF node.mks = <<>> THEN <<>> ELSE [ks |-> node.mks, vs |-> SubSeq(vs, nd + 1, Len(vs))] IN
             Rt(Alloc(c, [k |-> "map", ks |-> j.ks, vs |-> j.vs, meta |-> meta]), VRef(NewAddr(c))))
      [] node.k = "range" ->
            (IF vs[1].t = "int" /\ vs[2].t = "int" THEN Rt(c, VRng(vs[1].v, vs[2].v, node.inc))
             ELSE IF IsBot(vs[1]) \/ IsBot(vs[2]) THEN Unspec(c, "range-bot")
             ELSE IF (vs[1].t = "flt" \/ vs[1].t = "int") /\ (vs[2].t = "flt" \/ vs[2].t = "int")
                  THEN Unspec(c, "float-range")
             ELSE RtErr(c, "range-type"))
      [] node.k = "idx" -> (IF HasMeta(c, vs[1], "@index") THEN MetaCall(c, MetaVal(c, vs[1], "@index"), vs[1], <<vs[2]>>, [t |-> "val"])
                            ELSE IndexInto(c, vs[1], vs[2]))
      [] node.k = "istr" ->
            (IF \A i \in 1 .. Len(vs) : Observable(c.store, vs[i], 6)
             THEN Rt(c, VStr(ConcatDisp(c.store, vs, 1))) ELSE Unspec(c, "istr-unobservable"))
      [] node.k = "asg" ->
            \* guide: Assigning Variables -- the result of an assignment is the assigned value.
            \* A function literal assigned to a name it mentions captures itself (recursion).
            (IF node.e.k = "fn" /\ vs[1].t = "fn" /\ node.n \in {node.e.free[i] : i \in 1 .. Len(node.e.free)}
             THEN Rt([c EXCEPT !.env = Bind(@, node.n, vs[1]),
                               !.store[vs[1].v].caps = (node.n :> vs[1]) @@ @], vs[1])
             ELSE Rt([c EXCEPT !.env = Bind(@, node.n, vs[1])], vs[1]))
      [] node.k = "opasg" ->
            (IF ~Has(c.env, node.n) THEN Unspec(c, "opasg-unbound")
             ELSE IF IsObj(c, c.env[node.n]) THEN
                \* guide: `@*=` etc.  The function is called for its effect; the variable keeps referring to the object
                (IF HasMeta(c, c.env[node.n], OpKey(node.op) \o "=")
                 THEN MetaCall(c, MetaVal(c, c.env[node.n], OpKey(node.op) \o "="), c.env[node.n], <<vs[1]>>, [t |-> "discard"])
                 ELSE RtErr(c, "binop-types"))
             ELSE LET r == BinOp(c, node.op, c.env[node.n], vs[1]) IN
                  IF r.ctl.m = "rt" THEN [r EXCEPT !.env = Bind(@, node.n, r.ctl.v)] ELSE r)
      [] node.k = "masg" ->
            \* a, b = e  (guide: Value Unpacking).  One RHS expression; value of the expression: unspecified
            (IF HasMeta(c, vs[1], "@next") THEN MPull(c, node, vs[1], <<>>)
             ELSE IF HasMeta(c, vs[1], "@iterator") THEN
                MetaCall(c, MetaVal(c, vs[1], "@iterator"), vs[1], <<>>, [t |-> "miter", node |-> node])
             ELSE LET el == ElemsOf(c, vs[1]) IN
                  IF ~el.ok THEN Unspec(c, "unpack-kind")
                  ELSE Rt([c EXCEPT !.env = BindSeq(@, node.ns, el.s, 1)], VBot))
      [] node.k = "iasg" -> (IF HasMeta(c, vs[1], "@index_assign")
                             THEN MetaCall(c, MetaVal(c, vs[1], "@index_assign"), vs[1], <<vs[2], vs[3]>>, [t |-> "discard"])
                             ELSE IndexAssign(c, vs[1], vs[2], vs[3]))
      [] node.k = "iopasg" ->
            (LET cur == IndexInto(c, vs[1], vs[2]) IN
             IF cur.ctl.m # "rt" THEN cur
             ELSE LET r == BinOp(c, node.op, cur.ctl.v, vs[3]) IN
                  IF r.ctl.m # "rt" THEN r
                  \* guide: `print! a += 11` shows the new value
                  ELSE IndexAssign(r, vs[1], vs[2], r.ctl.v))
      [] node.k = "dot" ->
            (IF HasMeta(c, vs[1], "@access") THEN MetaCall(c, MetaVal(c, vs[1], "@access"), vs[1], <<VStr(node.n)>>, [t |-> "val"])
             ELSE IF IsObj(c, vs[1]) THEN
                (LET r == ObjLookup(c, vs[1], node.n, 4) IN IF r.ok THEN Rt(c, r.v) ELSE Unspec(c, "dot-missing"))
             ELSE IF IsMap(c, vs[1]) THEN
                (LET o == c.store[vs[1].v] IN
                 IF o.meta # <<>> THEN Unspec(c, "meta-dot")
                 ELSE LET r == MapGet(o, VStr(node.n)) IN
                      IF r.ok THEN Rt(c, r.v) ELSE Unspec(c, "dot-missing"))
             ELSE Unspec(c, "dot-kind"))
      [] node.k = "dasg" ->
            (IF HasMeta(c, vs[1], "@access_assign")
                THEN MetaCall(c, MetaVal(c, vs[1], "@access_assign"), vs[1], <<VStr(node.n), vs[2]>>, [t |-> "discard"])
             ELSE IF IsMap(c, vs[1]) THEN
                (LET o == c.store[vs[1].v] IN
                 IF HasMeta(c, vs[1], "@access") THEN Unspec(c, "meta-dot")
                 ELSE Rt([c EXCEPT !.store[vs[1].v] = MapPut(o, VStr(node.n), vs[2])], vs[2]))
             ELSE IF IsBot(vs[1]) \/ vs[1].t = "estr" THEN Unspec(c, "dasg-bot") ELSE RtErr(c, "dasg-kind"))
      [] node.k = "dopasg" ->
            (IF IsMap(c, vs[1]) THEN
                (LET o == c.store[vs[1].v] IN
                 \* an object's own data entry is read and replaced like a plain map's, unless access is overridden or may
                 \* fall back to a base (guide: @access, @access_assign, @base)
                 IF HasMeta(c, vs[1], "@access") \/ HasMeta(c, vs[1], "@access_assign") \/ HasMeta(c, vs[1], "@base")
                    THEN Unspec(c, "meta-dot")
                 ELSE LET cur == MapGet(o, VStr(node.n)) IN
                      IF ~cur.ok THEN Unspec(c, "dot-missing")
                      ELSE IF IsObj(c, cur.v) THEN Unspec(c, "dopasg-object-operand")
                      ELSE LET r == BinOp(c, node.op, cur.v, vs[2]) IN
                           IF r.ctl.m # "rt" THEN r
                           ELSE [r EXCEPT !.store[vs[1].v] = MapPut(r.store[vs[1].v], VStr(node.n), r.ctl.v)])
             ELSE Unspec(c, "dopasg-kind"))
      [] node.k = "core" -> CoreCall(c, node, vs)
      [] node.k = "mcall" -> MethodCall(c, node, vs)
      [] node.k = "app" ->
            (IF HasMeta(c, vs[1], "@call") THEN
                (IF MetaVal(c, vs[1], "@call").t # "fn" THEN Unspec(c, "metakey-not-a-function")
                 ELSE CallClosure(c, MetaVal(c, vs[1], "@call"), FlattenArgs(Tail(vs), 1), node.id, vs[1]))
             ELSE IF vs[1].t = "fn" THEN CallClosure(c, vs[1], FlattenArgs(Tail(vs), 1), node.id, VBot)
             ELSE IF IsBot(vs[1]) \/ vs[1].t \in {"ref", "estr"} THEN Unspec(c, "call-kind")
             ELSE RtErr(c, "not-callable"))
      [] node.k = "let" ->
            \* guide: Type Checks / let -- a value that does not match the declared type is an error
            (LET t == IF c.checks THEN TypeMatches(c, vs[1], node.ty) ELSE "y" IN
             IF t = "u" THEN Unspec(c, "let-type-unspec")
             ELSE IF t = "n" THEN RtErr(c, "let-type")
             ELSE Rt([c EXCEPT !.env = Bind(@, node.n, vs[1])], vs[1]))
      [] node.k = "mlet" ->
            \* let a: T, _: U, c = e   (guide: Type Checks / let with several targets; Value Unpacking).  Each target
            \* takes the next element (null when exhausted), ignored targets included; hinted targets are checked
            (LET el == ElemsOf(c, vs[1]) IN
             IF ~el.ok THEN Unspec(c, "unpack-kind")
             ELSE LET n    == Len(node.ns)
                      val(i) == IF i <= Len(el.s) THEN el.s[i] ELSE VNull
                      m(i)   == IF node.tys[i] = "" \/ ~c.checks THEN "y" ELSE TypeMatches(c, val(i), node.tys[i])
                      Bad    == {i \in 1 .. n : m(i) # "y"}
                  IN IF Bad = {} THEN Rt([c EXCEPT !.env = BindSeq(@, node.ns, el.s, 1)], VBot)
                     ELSE LET b == CHOOSE i \in Bad : \A j \in Bad : i <= j IN
                          IF m(b) = "u" THEN Unspec(c, "let-type-unspec") ELSE RtErr(c, "let-type"))
      [] node.k = "spread" ->
            \* guide: Packed Call Arguments -- replaced by the output of iterating over the argument
            (LET el == ElemsOf(c, vs[1]) IN
             IF ~el.ok \/ ~(vs[1].t \in {"tup", "ref", "rng", "str"}) THEN Unspec(c, "spread-kind")
             ELSE Rt(c, [t |-> "spr", v |-> el.s]))
      [] node.k = "yield" ->
            \* guide: Generators -- the generator is paused each time yield is encountered
            (LET G == {i \in 1 .. Len(c.kont) : c.kont[i].k = "genb"} IN
             IF G = {} THEN Unspec(c, "yield-outside-generator")
             ELSE LET gi == CHOOSE i \in G : \A i2 \in G : i <= i2
                      gb == c.kont[gi]
                      g == c.store[gb.a]
                      tyr == IF g.ret = "" \/ ~c.checks THEN "y" ELSE TypeMatches(c, vs[1], g.ret) IN
                  IF tyr = "u" THEN Unspec(c, "yield-type-unspec")
                  ELSE IF tyr = "n" THEN RtErr(c, "yield-type")
                  ELSE Rt([c EXCEPT !.store[gb.a] = [@ EXCEPT !.st = "susp", !.env = c.env,
                                                              !.kont = SubSeq(c.kont, 1, gi - 1)],
                                    !.kont = SubSeq(@, gi + 1, Len(@)),
                                    !.env = gb.env],
                          SigOut(vs[1])))
      [] node.k = "throw" ->
            \* guide: throw accepts strings or objects that implement @display
            (IF vs[1].t \in {"str", "unimpl"} THEN Throw(c, vs[1])
             ELSE IF IsObj(c, vs[1]) THEN Throw(c, vs[1])        \* objects that implement @display may be thrown
             ELSE IF vs[1].t \in {"bot", "estr", "ref"} THEN Unspec(c, "throw-kind")
             ELSE RtErr(c, "throw-type"))

(***************************************************************************)
(* Eval: start evaluating a node.                                          *)
(***************************************************************************)
LitValue(node) ==
    CASE node.k = "null" -> VNull
      [] node.k = "bool" -> VBool(node.v)
      [] node.k = "int" -> VInt(node.v)
      [] node.k = "flt" -> VFlt(node.n, node.d)
      [] node.k = "str" -> VStr(node.v)

Eval(c, node) ==
    IF node.k \in {"null", "bool", "int", "flt", "str"} THEN Rt(c, LitValue(node))
    ELSE IF node.k = "unimpl" THEN Rt(c, VUnimpl)
    ELSE IF node.k = "id" THEN
        (IF Has(c.env, node.n) THEN Rt(c, c.env[node.n])
         ELSE LET j == KeyIndex(c.exp.ks, VStr(node.n)) IN
              IF j # 0 THEN Rt(c, c.exp.vs[j]) ELSE Unspec(c, "unbound-id"))
    ELSE IF node.k \in StrictKinds THEN
        (LET subs == Subs(node) IN
         IF subs = <<>> THEN Apply(c, node, <<>>)
         ELSE Ev(Push(c, [k |-> "args", node |-> node, done |-> <<>>, todo |-> Tail(subs)]), Head(subs)))
    ELSE CASE node.k = "block" ->
                (IF node.xs = <<>> THEN Rt(c, VNull)
                 ELSE Ev(Push(c, [k |-> "blk", rest |-> Tail(node.xs)]), Head(node.xs)))
           [] node.k \in {"and", "or"} -> Ev(Push(c, [k |-> node.k, b |-> node.b]), node.a)
           [] node.k = "cmp" -> Ev(Push(c, [k |-> "cmp", node |-> node, i |-> 1, left |-> VNull]), node.xs[1])
           [] node.k = "if" -> Ev(Push(c, [k |-> "if", node |-> node, i |-> 1]), node.cs[1])
           [] node.k = "switch" ->
                (IF node.cs = <<>> THEN (IF node.has_else THEN Ev(c, node.e) ELSE Rt(c, VNull))
                 ELSE Ev(Push(c, [k |-> "if", node |-> node, i |-> 1]), node.cs[1]))
           [] node.k \in {"while", "until"} ->
                Ev(Push(c, [k |-> "loop", node |-> node, ph |-> "cond", it |-> <<>>, n |-> 0]), node.c)
           [] node.k = "loop" ->
                Ev(Push(c, [k |-> "loop", node |-> node, ph |-> "body", it |-> <<>>, n |-> 0]), node.b)
           [] node.k = "for" -> Ev(Push(c, [k |-> "forinit", node |-> node]), node.it)
           [] node.k = "break" ->
                (IF node.has THEN Ev(Push(c, [k |-> "brkv"]), node.e)
                 ELSE [c EXCEPT !.ctl = [m |-> "brk", v |-> VNull]])
           [] node.k = "continue" -> [c EXCEPT !.ctl = [m |-> "cnt"]]
           [] node.k = "return" ->
                (IF node.has THEN Ev(Push(c, [k |-> "retv"]), node.e)
                 ELSE [c EXCEPT !.ctl = [m |-> "ret", v |-> VNull]])
           [] node.k = "fn" ->
                \* guide: Captured Variables, Optional Arguments (defaults evaluated once, at creation)
                (LET dn == node.defaults IN
                 IF dn = <<>> THEN
                    LET caps == [x \in {node.free[i] : i \in 1 .. Len(node.free)} \cap DOMAIN c.env |-> c.env[x]] IN
                    Rt(Alloc(c, [k |-> "clo", node |-> node, caps |-> caps, defs |-> <<>>]), VFn(NewAddr(c)))
                 ELSE Ev(Push(c, [k |-> "fndefs", node |-> node, done |-> <<>>, todo |-> Tail(dn)]), Head(dn)))
           [] node.k = "try" -> Ev(Push(c, [k |-> "try", node |-> node, ph |-> "body", pend |-> <<>>]), node.b)
           [] node.k = "match" -> Ev(Push(c, [k |-> "matchs", node |-> node]), node.subj)

(***************************************************************************)
(* Return: a value arrives at the innermost continuation frame.            *)
(***************************************************************************)
(* guide: match -- first arm whose pattern (and guard) matches; no arm => null *)
RECURSIVE TryArms(_, _, _, _, _)
TryArms(c, node, v, i, j) ==
    IF i > Len(node.arms) THEN (IF node.has_else THEN Ev(c, node.e) ELSE Rt(c, VNull))
    ELSE LET arm == node.arms[i] IN
         IF j > Len(arm.pats) THEN TryArms(c, node, v, i + 1, 1)
         ELSE LET r == MatchPat(c, arm.pats[j], v, c.env) IN
              IF r.r = "u" THEN Unspec(c, "match-unspec")
              ELSE IF r.r = "n" THEN TryArms(c, node, v, i, j + 1)
              ELSE IF arm.has_guard THEN
                  Ev(Push([c EXCEPT !.env = r.env], [k |-> "matchg", node |-> node, v |-> v, i |-> i, j |-> j]),
                     arm.guard)
              ELSE Ev([c EXCEPT !.env = r.env], arm.b)

(* The loop has consumed its iterable.  Value: null if the body never ran, else not said.  The loop
   variables after the loop: not said either (they become bottom). *)
RECURSIVE BotAll(_, _, _)
BotAll(env, names, i) == IF i > Len(names) THEN env ELSE BotAll(Bind(env, names[i], VBot), names, i + 1)
ForDone(c, f) == Rt([c EXCEPT !.env = BotAll(@, f.node.vars, 1)], IF f.n = 0 THEN VNull ELSE VBot)

ForBody(c, f, v) ==    \* bind the loop variables to element v and run the body (f not yet pushed)
    LET node == f.node
        c1 == IF Len(node.vars) = 1
              THEN [ok |-> TRUE, env |-> Bind(c.env, node.vars[1], v)]
              ELSE LET el == ElemsOf(c, v) IN
                   IF el.ok THEN [ok |-> TRUE, env |-> BindSeq(c.env, node.vars, el.s, 1)] ELSE [ok |-> FALSE]
        tys == node.tys
        \* the value each argument takes (ignored arguments included: a hinted `_` is checked too)
        el2 == IF Len(node.vars) = 1 THEN <<v>> ELSE (IF ElemsOf(c, v).ok THEN ElemsOf(c, v).s ELSE <<>>)
        val(i) == IF i <= Len(el2) THEN el2[i] ELSE VNull
        bad == {i \in 1 .. Len(tys) : c.checks /\ tys[i] # "" /\ TypeMatches(c, val(i), tys[i]) # "y"}
    IN IF ~c1.ok THEN Unspec(c, "for-unpack-kind")
       ELSE IF \E i \in bad : TypeMatches(c, val(i), tys[i]) = "u" THEN Unspec(c, "for-type-unspec")
       ELSE IF bad # {} THEN RtErr(c, "for-arg-type")
       ELSE Ev([Push(c, [f EXCEPT !.ph = "body", !.n = @ + 1]) EXCEPT !.env = c1.env], node.b)

LoopNext(c, f) ==     \* next iteration of the loop whose frame f has just been popped from c
    LET node == f.node IN
    CASE node.k \in {"while", "until"} -> Ev(Push(c, [f EXCEPT !.ph = "cond"]), node.c)
      [] node.k = "loop" -> Ev(Push(c, [f EXCEPT !.ph = "body", !.n = @ + 1]), node.b)
      [] node.k = "for" /\ f.it.k = "itr" -> Pull(Push(c, [f EXCEPT !.ph = "pull"]), f.it.a)
      [] node.k = "for" /\ f.it.k = "objnext" ->
            MetaCall(Push(c, [f EXCEPT !.ph = "pull"]), MetaVal(c, f.it.v, "@next"), f.it.v, <<>>, [t |-> "next"])
      [] node.k = "for" ->
            (LET r == IterNext(c, f.it) IN
             IF ~r.more THEN ForDone(c, f)
             ELSE ForBody(c, [f EXCEPT !.it = r.it], r.v))

RECURSIVE SumSeq(_, _, _, _)
SumSeq(c, s, i, acc) ==
    IF i > Len(s) THEN Rt(c, acc)
    ELSE IF ~(IsNum(s[i])) THEN (IF IsBot(s[i]) \/ s[i].t = "estr" THEN Unspec(c, "sum-bot") ELSE RtErr(c, "sum-type"))
    ELSE LET r == Arith("+", acc, s[i]) IN IF IsBot(r) THEN Unspec(c, "window") ELSE SumSeq(c, s, i + 1, r)

(* guide: Type Checks / Functions -- `-> T` checks the returned value *)
CallReturn(c0, f, v) ==
    LET t == IF f.ret = "" \/ ~c0.checks THEN "y" ELSE TypeMatches(c0, v, f.ret) IN
    IF t = "u" THEN Unspec(c0, "return-type-unspec")
    ELSE IF t = "n" THEN RtErr([c0 EXCEPT !.env = f.env], "return-type")
    ELSE Rt([c0 EXCEPT !.env = f.env], v)

Return(c, v) ==
    IF c.kont = <<>> THEN [c EXCEPT !.ctl = [m |-> "done", st |-> "ok", v |-> v]]
    ELSE
    LET f == Top(c)  c0 == Pop(c) IN
    CASE f.k = "args" ->
            (IF f.node.k = "mcall" /\ f.done = <<>> /\ f.todo # <<>> /\ ~IsBot(v) /\ v.t # "estr"
                /\ ~(IsMap(c0, v) /\ (c0.store[v.v].meta # <<>> \/ MapGet(c0.store[v.v], VStr(f.node.m)).ok))
                /\ KnownNoMethod(c0, v, f.node.m)
             THEN \* a call chain is evaluated left to right: the method is looked up on the receiver before the arguments are
                  \* evaluated (guide: Maps / the `.` operator), so a missing method fails before any argument runs
                  RtErr(c0, "no-such-method")
             ELSE IF f.todo = <<>> THEN Apply(c0, f.node, Append(f.done, v))
             ELSE Ev(Push(c0, [f EXCEPT !.done = Append(@, v), !.todo = Tail(@)]), Head(f.todo)))
      [] f.k = "blk" ->
            (IF f.rest = <<>> THEN Rt(c0, v)
             ELSE Ev(Push(c0, [f EXCEPT !.rest = Tail(@)]), Head(f.rest)))
      [] f.k = "and" ->      \* guide: Booleans / Truthiness; short-circuit, yields the deciding operand
            (IF IsBot(v) THEN Unspec(c, "and-bot") ELSE IF Truthy(v) THEN Ev(c0, f.b) ELSE Rt(c0, v))
      [] f.k = "or" ->
            (IF IsBot(v) THEN Unspec(c, "or-bot") ELSE IF Truthy(v) THEN Rt(c0, v) ELSE Ev(c0, f.b))
      [] f.k = "cmp" ->
            \* chained comparisons: each operand evaluated once, stop at the first false link
            (IF f.i = 1 THEN Ev(Push(c0, [f EXCEPT !.i = 2, !.left = v]), f.node.xs[2])
             ELSE IF IsObj(c0, f.left) THEN ObjCompare(c0, f, f.left, v)
             ELSE IF IsObj(c0, v) THEN Unspec(c, "object-on-the-right-of-a-comparison")
             ELSE LET r == Compare(c0, f.node.ops[f.i - 1], f.left, v) IN
                  IF r = "u" THEN Unspec(c, "compare-unspec")
                  ELSE IF r = "e" THEN RtErr(c0, "compare-types")
                  ELSE CmpContinue(c0, f, v, r))
      [] f.k = "if" ->
            \* guide: if / switch; no branch taken => null
            (IF IsBot(v) THEN Unspec(c, "if-bot")
             ELSE IF Truthy(v) THEN Ev(c0, f.node.bs[f.i])
             ELSE IF f.i < Len(f.node.cs) THEN Ev(Push(c0, [f EXCEPT !.i = @ + 1]), f.node.cs[f.i + 1])
             ELSE IF f.node.has_else THEN Ev(c0, f.node.e)
             ELSE Rt(c0, VNull))
      [] f.k = "loop" /\ f.ph = "pull" ->
            (IF v.t = "end" THEN ForDone(c0, f)
             ELSE IF v.t = "out" THEN ForBody(c0, f, v.v) ELSE Unspec(c, "pull-signal"))
      [] f.k = "nextk" ->
            (IF v.t = "end" THEN Rt(c0, VNull)
             ELSE IF v.t = "out" THEN Rt(c0, [t |-> "iout", v |-> v.v]) ELSE Unspec(c, "pull-signal"))
      [] f.k = "collect" ->
            (IF v.t = "out" THEN Pull(Push(c0, [f EXCEPT !.acc = Append(@, v.v)]), f.a)
             ELSE IF v.t # "end" THEN Unspec(c, "pull-signal")
             ELSE CASE f.m = "to_tuple" -> Rt(c0, VTup(f.acc))
                    [] f.m = "to_list" -> Rt(Alloc(c0, [k |-> "list", v |-> f.acc]), VRef(NewAddr(c0)))
                    [] f.m = "count" -> Rt(c0, VInt(Len(f.acc)))
                    [] f.m = "sum" -> SumSeq(c0, f.acc, 1, VInt(0)))
      [] f.k = "fold" ->
            (IF f.ph = "pull" THEN
                (IF v.t = "end" THEN Rt(c0, f.acc)
                 ELSE IF v.t = "out" THEN CallClosure(Push(c0, [f EXCEPT !.ph = "call"]), f.f, <<f.acc, v.v>>, 0, VBot)
                 ELSE Unspec(c, "pull-signal"))
             ELSE Pull(Push(c0, [f EXCEPT !.acc = v, !.ph = "pull"]), f.a))
      [] f.k = "adapt" ->
            (IF v.t = "end" THEN Rt(c0, SigEnd)
             ELSE IF v.t = "out" THEN
                CallClosure(Push(c0, [k |-> "adaptf", a |-> f.a, v |-> v.v]), c0.store[f.a].f, <<v.v>>, 0, VBot)
             ELSE Unspec(c, "pull-signal"))
      [] f.k = "adaptf" ->
            (IF c0.store[f.a].k = "each" THEN Rt(c0, SigOut(v))
             ELSE IF IsBot(v) THEN Unspec(c, "keep-bot")
             ELSE IF v.t # "bool" THEN Unspec(c, "keep-non-bool")      \* docs: the predicate returns a Bool
             ELSE IF v.v THEN Rt(c0, SigOut(f.v))
             ELSE Pull(Push(c0, [k |-> "adapt", a |-> f.a]), c0.store[f.a].src))
      [] f.k = "zipa" ->
            (IF v.t = "end" THEN Rt(c0, SigEnd)
             ELSE IF v.t = "out" THEN Pull(Push(c0, [k |-> "zipb", a |-> f.a, v |-> v.v]), c0.store[f.a].src2)
             ELSE Unspec(c, "pull-signal"))
      [] f.k = "zipb" ->
            (IF v.t = "end" THEN Rt(c0, SigEnd)
             ELSE IF v.t = "out" THEN Rt(c0, SigOut(VTup(<<f.v, v.v>>)))
             ELSE Unspec(c, "pull-signal"))
      [] f.k = "chaina" ->
            (IF v.t = "out" THEN Rt(c0, v)
             ELSE IF v.t = "end" THEN Pull([c0 EXCEPT !.store[f.a].ph = "b"], c0.store[f.a].src2)
             ELSE Unspec(c, "pull-signal"))
      [] f.k = "genb" ->
            \* the generator's body has returned: the generator is exhausted
            Rt([c0 EXCEPT !.store[f.a].st = "done", !.env = f.env], SigEnd)
      [] f.k = "metak" -> MetaReturn(c0, f.then, v)
      [] f.k = "matchs" -> TryArms(c0, f.node, v, 1, 1)
      [] f.k = "matchg" ->
            (IF IsBot(v) THEN Unspec(c, "guard-bot")
             ELSE IF Truthy(v) THEN Ev(c0, f.node.arms[f.i].b)
             \* the guard belongs to the arm: when it fails the arm is not taken.  Whether a later alternative
             \* of the same arm that also matches gets its own chance is not said => abstain in that case only.
             ELSE IF \E j2 \in (f.j + 1) .. Len(f.node.arms[f.i].pats) :
                        MatchPat(c0, f.node.arms[f.i].pats[j2], f.v, c0.env).r # "n"
                  THEN Unspec(c, "guard-with-alternatives")
             ELSE TryArms(c0, f.node, f.v, f.i + 1, 1))
      [] f.k = "loop" ->
            (IF f.ph = "cond" THEN
                (IF IsBot(v) THEN Unspec(c, "loop-cond-bot")
                 ELSE IF Truthy(v) = (f.node.k = "while")
                    THEN Ev(Push(c0, [f EXCEPT !.ph = "body", !.n = @ + 1]), f.node.b)
                    ELSE Rt(c0, IF f.n = 0 THEN VNull ELSE VBot))
             ELSE LoopNext(c0, f))
      [] f.k = "forinit" /\ HasMeta(c0, v, "@next") ->
            \* guide: @next -- called repeatedly, null ends the iteration (checked before @iterator)
            LoopNext(c0, [k |-> "loop", node |-> f.node, ph |-> "body", it |-> [k |-> "objnext", v |-> v], n |-> 0])
      [] f.k = "forinit" /\ HasMeta(c0, v, "@iterator") ->
            MetaCall(Push(c0, f), MetaVal(c0, v, "@iterator"), v, <<>>, [t |-> "iter"])
      [] f.k = "forinit" ->
            (IF IsBot(v) THEN Unspec(c, "for-bot")
             ELSE LET mi == MakeIter(c0, v) IN
                  IF ~mi.ok THEN Unspec(c, "for-iterable-kind")   \* guide silent on non-iterable operands
                  ELSE IF v.t = "ref" /\ c0.store[v.v].k = "map" /\ c0.store[v.v].meta # <<>>
                       THEN Unspec(c, "for-meta")
                  ELSE LoopNext(c0, [k |-> "loop", node |-> f.node, ph |-> "body", it |-> mi.it, n |-> 0]))
      [] f.k = "brkv" -> [c0 EXCEPT !.ctl = [m |-> "brk", v |-> v]]
      [] f.k = "retv" -> [c0 EXCEPT !.ctl = [m |-> "ret", v |-> v]]
      [] f.k = "call" -> CallReturn(c0, f, v)
      [] f.k = "fndefs" ->
            (IF f.todo = <<>> THEN
                LET node == f.node
                    caps == [x \in {node.free[i] : i \in 1 .. Len(node.free)} \cap DOMAIN c0.env |-> c0.env[x]] IN
                Rt(Alloc(c0, [k |-> "clo", node |-> node, caps |-> caps, defs |-> Append(f.done, v)]),
                   VFn(NewAddr(c0)))
             ELSE Ev(Push(c0, [f EXCEPT !.done = Append(@, v), !.todo = Tail(@)]), Head(f.todo)))
      [] f.k = "try" ->
            \* guide: Error Handling.  The value of try is the body's (or handler's) value unless a
            \* finally block exists, whose value then wins.
            (IF f.ph \in {"body", "catch"} THEN
                (IF f.node.has_fin
                    THEN Ev(Push(c0, [f EXCEPT !.ph = "fin", !.pend = [m |-> "rt", v |-> v]]), f.node.fin)
                    ELSE Rt(c0, v))
             ELSE \* finally finished: resume what was pending
                (IF f.pend.m = "rt" THEN Rt(c0, v) ELSE [c0 EXCEPT !.ctl = f.pend]))

(***************************************************************************)
(* Abrupt completion: break / continue / return / throw unwind frames.     *)
(***************************************************************************)
SelectCatch(c, node, v, i) ==
    \* typed catches are tried in order; the last one is untyped (guide: Type checks on catch blocks).
    \* Result: index of the handler, 0 if none, -1 if an earlier hint's verdict is not specified.
    LET M(j) == IF node.catches[j].ty = "" THEN "y" ELSE TypeMatches(c, v, node.catches[j].ty)
        S == {j \in 1 .. Len(node.catches) : M(j) = "y"}
        U == {j \in 1 .. Len(node.catches) : M(j) = "u"} IN
    IF S = {} THEN (IF U = {} THEN 0 ELSE 0 - 1)
    ELSE LET j == CHOOSE x \in S : \A k \in S : x <= k IN
         IF \E u \in U : u < j THEN 0 - 1 ELSE j

Unwind(c) ==
    LET ctl == c.ctl IN
    IF c.kont = <<>> THEN
        (CASE ctl.m = "thr" -> [c EXCEPT !.ctl = [m |-> "done", st |-> "err", cls |-> ctl.cls, v |-> ctl.v,
                                                   kind |-> ctl.kind, trace |-> ctl.trace, at |-> ctl.at]]
           [] ctl.m = "ret" -> [c EXCEPT !.ctl = [m |-> "done", st |-> "ok", v |-> ctl.v]]
           [] OTHER -> Unspec(c, "loop-control-outside-loop"))
    ELSE
    LET f == Top(c)  c0 == Pop(c) IN
    IF f.k = "try" /\ f.ph = "body" /\ ctl.m = "thr" /\ f.node.catches # <<>> THEN
        (LET j == SelectCatch(c0, f.node, ctl.v, 1) IN
         IF j <= 0 THEN Unspec(c, IF j = 0 THEN "no-untyped-catch" ELSE "catch-hint-unspecified")
         ELSE LET h == f.node.catches[j] IN
              Ev([Push(c0, [f EXCEPT !.ph = "catch"]) EXCEPT !.env = Bind(@, h.n, ctl.v)], h.b))
    ELSE IF f.k = "try" /\ f.ph \in {"body", "catch"} /\ f.node.has_fin THEN
        \* finally runs on every exit path, then the abrupt completion continues.
        \* Deviation F28 (known finding, the code as it is): the finally block is skipped when the try
        \* or catch block is left by return / break / continue or by an error thrown in the catch block.
        (IF "F28" \in c.dev THEN [c0 EXCEPT !.used = @ \cup {"F28"}]
         ELSE Ev(Push(c0, [f EXCEPT !.ph = "fin", !.pend = ctl]), f.node.fin))
    ELSE IF f.k = "metak" /\ ctl.m = "thr" /\ f.then.t = "binl" /\ ctl.v.t = "unimpl" THEN
        \* guide: throw koto.unimplemented lets the runtime try the right operand's implementation
        (IF HasMeta(c0, f.then.b, ROpKey(f.then.op))
         THEN MetaCall(c0, MetaVal(c0, f.then.b, ROpKey(f.then.op)), f.then.b, <<f.then.a>>, [t |-> "val"])
         ELSE RtErr(c0, "binop-unimplemented"))
    ELSE IF f.k = "loop" /\ ctl.m = "brk" THEN Rt(c0, ctl.v)
    ELSE IF f.k = "loop" /\ ctl.m = "cnt" THEN
        (IF f.node.k = "loop" \/ f.node.k = "for" THEN LoopNext(c0, f)
         ELSE Ev(Push(c0, [f EXCEPT !.ph = "cond"]), f.node.c))
    ELSE IF f.k = "call" THEN
        (CASE ctl.m = "ret" -> CallReturn(c0, f, ctl.v)
           [] ctl.m = "thr" ->
                \* a function called from script code records its call site; one called by a core-library function (site 0)
                \* is recorded by that function's frame
                [c0 EXCEPT !.env = f.env, !.ctl.trace = IF f.site = 0 THEN @ ELSE Append(@, f.site)]
           [] OTHER -> Unspec(c, "loop-control-across-call"))
    ELSE IF f.k = "genb" THEN
        (CASE ctl.m = "ret" -> Rt([c0 EXCEPT !.store[f.a].st = "done", !.env = f.env], SigEnd)
           [] ctl.m = "thr" ->
                \* C12: an error leaving a generator body passes the place that asked for the next value; a `for` loop is
                \* such a place (core-library consumers record themselves below)
                (LET c1 == [c0 EXCEPT !.store[f.a].st = "done", !.env = f.env] IN
                 IF c0.kont # <<>> /\ Top(c0).k = "loop" /\ Top(c0).node.k = "for"
                 THEN [c1 EXCEPT !.ctl.trace = Append(@, Top(c0).node.id)] ELSE c1)
           [] OTHER -> Unspec(c, "loop-control-across-generator"))
    ELSE IF ctl.m = "thr" /\ f.k = "metak" /\ "site" \in DOMAIN f /\ f.site # 0 THEN
        \* C12: the expression whose operator or protocol ran the failing metakey function is an enclosing call site
        [c0 EXCEPT !.ctl.trace = Append(@, f.site)]
    ELSE IF ctl.m = "thr" /\ f.k \in {"nextk", "collect", "fold"} /\ "site" \in DOMAIN f THEN
        \* C12: a core-library function that was running user code is an enclosing call site
        [c0 EXCEPT !.ctl.trace = Append(@, f.site)]
    ELSE IF ctl.m = "thr" /\ f.k = "adaptf" /\ "site" \in DOMAIN c0.store[f.a] THEN
        [c0 EXCEPT !.ctl.trace = Append(@, c0.store[f.a].site)]
    ELSE c0      \* discard the frame and keep unwinding

(***************************************************************************)
(* The transition function.                                                *)
(***************************************************************************)
(* Ghost for diagnostics (C12): the node whose rule raised the error. *)
NodeOfStep(c) ==
    IF c.ctl.m = "ev" THEN c.ctl.n.id
    ELSE IF c.kont # <<>> /\ "node" \in DOMAIN Head(c.kont) THEN Head(c.kont).node.id
    ELSE 0

Step(c) ==
    LET c1 == [c EXCEPT !.n = @ + 1]
        c2 == CASE c.ctl.m = "ev" -> Eval(c1, c.ctl.n)
                [] c.ctl.m = "rt" -> Return(c1, c.ctl.v)
                [] c.ctl.m \in {"brk", "cnt", "ret", "thr"} -> Unwind(c1)
                [] c.ctl.m = "done" -> c
        \* C12 ghost: a metakey function started by this step (operator, protocol) was started from the node of this step
        c3 == IF Len(c2.kont) >= 2 /\ c2.kont[2].k = "metak" /\ ~("site" \in DOMAIN c2.kont[2]) /\ Len(c2.kont) > Len(c.kont)
              THEN [c2 EXCEPT !.kont[2] = [site |-> NodeOfStep(c)] @@ @] ELSE c2
    IN IF c3.ctl.m = "thr" /\ ~("at" \in DOMAIN c3.ctl) THEN [c3 EXCEPT !.ctl = [at |-> NodeOfStep(c)] @@ @] ELSE c3

(* dev: the set of named deviations (known findings modelled as the code behaves) that are enabled;
   used: those whose rule was actually taken in this run. *)
InitCfg(prog, dev) == [ctl |-> [m |-> "ev", n |-> prog], env |-> EmptyEnv, kont |-> <<>>, store |-> <<>>,
                       out |-> <<>>, exp |-> [ks |-> <<>>, vs |-> <<>>], n |-> 0, dev |-> dev, used |-> {},
                       \* "notypes" \in dev: compiled with enable_type_checks off (C16): hints on let / for / arguments /
                       \* return / yield are not checked; match and catch patterns keep selecting
                       checks |-> ~("notypes" \in dev)]

(* Run up to 2^k steps with recursion depth k. *)
RECURSIVE RunK(_, _)
RunK(c, k) == IF c.ctl.m = "done" THEN c
              ELSE IF k = 0 THEN Step(c)
              ELSE RunK(RunK(c, k - 1), k - 1)

SetToSeq(S) == LET RECURSIVE F(_) 
                    F(T) == IF T = {} THEN <<>> ELSE LET x == CHOOSE x \in T : TRUE IN <<x>> \o F(T \ {x})
                IN F(S)
(* Observable outcome of a finished (or out-of-fuel) configuration. *)
Outcome0(c) ==
    IF c.ctl.m # "done" THEN [status |-> "fuel", out |-> c.out]
    ELSE IF c.ctl.st = "unspec" THEN [status |-> "unspec", why |-> c.ctl.why, out |-> c.out, steps |-> c.n]
    ELSE IF c.ctl.st = "ok" THEN
        [status |-> "ok", out |-> c.out, steps |-> c.n,
         \* the final top-level environment (observable values only): what export_top_level_ids exports (C18)
         topenv |-> LET names == SetToSeq({x \in DOMAIN c.env : Observable(c.store, c.env[x], 6)}) IN
                    [i \in 1 .. Len(names) |-> <<"v", names[i], Disp(c.store, c.env[names[i]], FALSE)>>],
         observable |-> Observable(c.store, c.ctl.v, 6),
         value |-> IF Observable(c.store, c.ctl.v, 6) THEN Disp(c.store, c.ctl.v, FALSE) ELSE "",
         vtype |-> TypeName(c, c.ctl.v)]
    ELSE [status |-> "err", out |-> c.out, steps |-> c.n, cls |-> c.ctl.cls, kind |-> c.ctl.kind,
          msg |-> IF c.ctl.v.t = "str" THEN c.ctl.v.v ELSE "", trace |-> c.ctl.trace, at |-> c.ctl.at]
Outcome(c) == [used |-> SetToSeq(c.used)] @@ Outcome0(c)
=============================================================================
