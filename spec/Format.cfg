INIT Init
NEXT Next
