------------------------------- MODULE Values -------------------------------
(***************************************************************************)
(* Koto runtime values as tagged records, with the value-level operators   *)
(* the language guide defines: truthiness, arithmetic, equality, ordering, *)
(* display.  TLC refuses to compare values of different kinds, so every    *)
(* value carries a tag `t` and every comparison looks at the tag first.    *)
(*                                                                         *)
(*   null   [t |-> "null"]                                                 *)
(*   bool   [t |-> "bool", v |-> BOOLEAN]                                  *)
(*   int    [t |-> "int",  v |-> Int]          window |v| <= IntWin        *)
(*   float  [t |-> "flt",  n |-> Int, d |-> Nat]   exactly n / 2^d         *)
(*   float  [t |-> "fsp",  v |-> "inf" | "ninf" | "nan"]                   *)
(*   string [t |-> "str",  v |-> STRING]                                   *)
(*   tuple  [t |-> "tup",  v |-> Seq(Value)]                               *)
(*   range  [t |-> "rng",  a |-> Int, b |-> Int, inc |-> BOOLEAN]          *)
(*   list / map   [t |-> "ref", v |-> address in the store]                *)
(*   function     [t |-> "fn",  v |-> address in the store]                *)
(*   iterator     [t |-> "itr", v |-> address in the store]                *)
(*   error text   [t |-> "estr"]  the String bound by `catch` for a        *)
(*                runtime error: its type is String, its text unspecified  *)
(*   bottom       [t |-> "bot"]   "the guide does not say"                 *)
(*                                                                         *)
(* Arithmetic results outside the exact window are BOT (the program is     *)
(* discarded by the caller, never reported).                               *)
(***************************************************************************)
EXTENDS Integers, Sequences, TLC

IntWin == 1000000      \* integers are kept inside +-IntWin (TLC ints are 32 bit)
MaxDen == 8            \* floats are n / 2^d with d <= MaxDen

VNull     == [t |-> "null"]
VBool(b)  == [t |-> "bool", v |-> b]
VTrue     == VBool(TRUE)
VFalse    == VBool(FALSE)
VInt(i)   == [t |-> "int", v |-> i]
VStr(s)   == [t |-> "str", v |-> s]
VTup(s)   == [t |-> "tup", v |-> s]
VRng(a, b, inc) == [t |-> "rng", a |-> a, b |-> b, inc |-> inc]
VRef(a)   == [t |-> "ref", v |-> a]
VFn(a)    == [t |-> "fn", v |-> a]
VItr(a)   == [t |-> "itr", v |-> a]
VEStr     == [t |-> "estr"]
VBot      == [t |-> "bot"]
VInf      == [t |-> "fsp", v |-> "inf"]
VNInf     == [t |-> "fsp", v |-> "ninf"]
VNaN      == [t |-> "fsp", v |-> "nan"]

IsBot(v)  == v.t = "bot"
IsNum(v)  == v.t \in {"int", "flt", "fsp"}
IsFin(v)  == v.t \in {"int", "flt"}

Abs(i) == IF i < 0 THEN -i ELSE i
Sgn(i) == IF i < 0 THEN -1 ELSE IF i > 0 THEN 1 ELSE 0
Pow2(d) == CASE d = 0 -> 1 [] d = 1 -> 2 [] d = 2 -> 4 [] d = 3 -> 8 [] d = 4 -> 16 [] d = 5 -> 32
             [] d = 6 -> 64 [] d = 7 -> 128 [] d = 8 -> 256 [] d = 9 -> 512 [] d = 10 -> 1024
             [] d = 11 -> 2048 [] d = 12 -> 4096 [] d = 13 -> 8192 [] d = 14 -> 16384
             [] d = 15 -> 32768 [] d = 16 -> 65536

(* Rust's integer remainder: sign of the dividend. *)
Rem(a, b) == Sgn(a) * (Abs(a) % Abs(b))
(* Rust's integer division truncates towards zero. *)
Quot(a, b) == Sgn(a) * Sgn(b) * (Abs(a) \div Abs(b))

(* Normalised float n / 2^d; out of window => bottom.  A float with d = 0 is an integral float. *)
RECURSIVE Norm(_, _)
Norm(n, d) == IF d > 0 /\ n % 2 = 0 THEN Norm(n \div 2, d - 1) ELSE [n |-> n, d |-> d]
VFlt(n, d) ==
    LET r == Norm(n, d) IN
    IF r.d > MaxDen \/ Abs(r.n) > IntWin * Pow2(r.d) \/ Abs(r.n) > 100000000 THEN VBot
    ELSE [t |-> "flt", n |-> r.n, d |-> r.d]

WinInt(i) == IF Abs(i) > IntWin THEN VBot ELSE VInt(i)

(* numerator / denominator-exponent of a finite number *)
NumN(v) == IF v.t = "int" THEN v.v ELSE v.n
NumD(v) == IF v.t = "int" THEN 0 ELSE v.d

Truthy(v) == ~(v.t = "null" \/ (v.t = "bool" /\ v.v = FALSE))

(***************************************************************************)
(* Arithmetic on numbers (guide: Numbers and Arithmetic).                  *)
(***************************************************************************)
Max(a, b) == IF a > b THEN a ELSE b

FinAdd(a, b, sign) ==
    LET d == Max(NumD(a), NumD(b))
        x == NumN(a) * Pow2(d - NumD(a))
        y == NumN(b) * Pow2(d - NumD(b))
    IN  IF a.t = "int" /\ b.t = "int" THEN WinInt(a.v + sign * b.v) ELSE VFlt(x + sign * y, d)

FinMul(a, b) ==
    IF Abs(NumN(a)) > 100000 \/ Abs(NumN(b)) > 20000 THEN
        (IF NumN(a) = 0 \/ NumN(b) = 0
            THEN (IF a.t = "int" /\ b.t = "int" THEN VInt(0) ELSE VBot)   \* -0.0 questions: abstain
            ELSE VBot)
    ELSE IF a.t = "int" /\ b.t = "int" THEN WinInt(a.v * b.v)
    ELSE IF (NumN(a) = 0 \/ NumN(b) = 0) /\ (NumN(a) < 0 \/ NumN(b) < 0) THEN VBot  \* would be -0.0
    ELSE VFlt(NumN(a) * NumN(b), NumD(a) + NumD(b))

(* `/` always yields a float; exact only when the quotient is dyadic. *)
FinDiv(a, b) ==
    LET na == NumN(a)  nb == NumN(b) IN
    IF nb = 0 THEN (IF na = 0 THEN VNaN ELSE IF na > 0 THEN VInf ELSE VNInf)
    ELSE IF b.t = "flt" /\ b.n = 0 THEN VBot
    ELSE IF na = 0 THEN (IF nb < 0 THEN VBot ELSE VFlt(0, 0))      \* 0 / -x = -0.0: abstain
    ELSE IF Abs(na) > 100000 THEN VBot
    ELSE \* (na / 2^da) / (nb / 2^db) = (na / nb) * 2^(db - da); scale numerator so that nb divides it
         LET e == NumD(b) - NumD(a)      \* may be negative
             \* try to find k in 0..MaxDen+2 with nb | na * 2^k
             ks == {k \in 0 .. 10 : (Abs(na) * Pow2(k)) % Abs(nb) = 0}
         IN IF ks = {} THEN VBot
            ELSE LET k == CHOOSE x \in ks : \A y \in ks : x <= y
                     q == Sgn(na) * Sgn(nb) * ((Abs(na) * Pow2(k)) \div Abs(nb))
                     \* value = q * 2^(e - k)
                     ex == e - k
                 IN IF ex >= 0 THEN (IF ex > 10 THEN VBot ELSE VFlt(q * Pow2(ex), 0))
                    ELSE IF -ex > 16 THEN VBot ELSE VFlt(q, -ex)

FinRem(a, b) ==
    IF a.t = "int" /\ b.t = "int" THEN
        (IF b.v = 0 THEN VNaN ELSE VInt(Rem(a.v, b.v)))     \* guide/impl: int % 0 is NaN
    ELSE IF NumN(b) = 0 THEN VNaN
    ELSE LET d == Max(NumD(a), NumD(b))
             x == NumN(a) * Pow2(d - NumD(a))
             y == NumN(b) * Pow2(d - NumD(b))
         IN IF x = 0 \/ (Rem(x, y) = 0 /\ x < 0) THEN VBot ELSE VFlt(Rem(x, y), d)   \* -0.0: abstain

RECURSIVE IPow(_, _)
IPow(a, n) == IF n = 0 THEN 1 ELSE
              LET r == IPow(a, n - 1) IN IF Abs(r) > IntWin THEN IntWin + 1 ELSE r * a

FinPow(a, b) ==
    IF b.t # "int" \/ Abs(b.v) > 20 \/ Abs(NumN(a)) > 1000 THEN VBot
    ELSE IF a.t = "int" THEN
        (IF b.v >= 0 THEN WinInt(IPow(a.v, b.v))
         ELSE \* negative exponent: float 1 / a^|b|
              IF a.v = 0 THEN VBot
              ELSE LET p == IPow(a.v, -b.v) IN
                   IF Abs(p) > IntWin THEN VBot ELSE FinDiv(VFlt(1, 0), VFlt(p, 0)))
    ELSE \* dyadic float to an integer power
        IF b.v >= 0 THEN
            LET p == IPow(a.n, b.v) IN
            IF Abs(p) > IntWin \/ a.d * b.v > 16 THEN VBot ELSE VFlt(p, a.d * b.v)
        ELSE VBot

Arith(op, a, b) ==
    IF ~(IsFin(a) /\ IsFin(b)) THEN VBot      \* inf/nan operands: abstain
    ELSE CASE op = "+" -> FinAdd(a, b, 1)
           [] op = "-" -> FinAdd(a, b, -1)
           [] op = "*" -> FinMul(a, b)
           [] op = "/" -> FinDiv(a, b)
           [] op = "%" -> FinRem(a, b)
           [] op = "^" -> FinPow(a, b)

NumNeg(a) == IF a.t = "int" THEN VInt(-a.v)
             ELSE IF a.t = "flt" THEN (IF a.n = 0 THEN VBot ELSE VFlt(-a.n, a.d))
             ELSE IF a.v = "inf" THEN VNInf ELSE IF a.v = "ninf" THEN VInf ELSE VNaN

(***************************************************************************)
(* Numeric comparison: -1, 0, 1, or 2 when unordered (NaN).                *)
(***************************************************************************)
NumCmp(a, b) ==
    IF a.t = "fsp" \/ b.t = "fsp" THEN
        (IF (a.t = "fsp" /\ a.v = "nan") \/ (b.t = "fsp" /\ b.v = "nan") THEN 2
         ELSE IF a.t = "fsp" /\ b.t = "fsp" THEN (IF a.v = b.v THEN 0 ELSE IF a.v = "inf" THEN 1 ELSE -1)
         ELSE IF a.t = "fsp" THEN (IF a.v = "inf" THEN 1 ELSE -1)
         ELSE (IF b.v = "inf" THEN -1 ELSE 1))
    ELSE LET d == Max(NumD(a), NumD(b))
             x == NumN(a) * Pow2(d - NumD(a))
             y == NumN(b) * Pow2(d - NumD(b))
         IN IF x < y THEN -1 ELSE IF x > y THEN 1 ELSE 0

(***************************************************************************)
(* Strings: ordering over a fixed ASCII alphabet (TLC cannot order strings)*)
(***************************************************************************)
Alphabet == " !\"#$%&'()*+,-./0123456789:;<=>?@ABCDEFGHIJKLMNOPQRSTUVWXYZ[\\]^_`abcdefghijklmnopqrstuvwxyz{|}~"
Ch(s, i) == SubSeq(s, i, i)
OrdOf(c) == LET S == {i \in 1 .. Len(Alphabet) : Ch(Alphabet, i) = c} IN
            IF S = {} THEN 0 ELSE CHOOSE i \in S : TRUE
RECURSIVE StrCmpFrom(_, _, _)
StrCmpFrom(a, b, i) ==
    IF i > Len(a) /\ i > Len(b) THEN 0
    ELSE IF i > Len(a) THEN -1
    ELSE IF i > Len(b) THEN 1
    ELSE LET x == OrdOf(Ch(a, i))  y == OrdOf(Ch(b, i)) IN
         IF x < y THEN -1 ELSE IF x > y THEN 1 ELSE StrCmpFrom(a, b, i + 1)
StrCmp(a, b) == StrCmpFrom(a, b, 1)

(***************************************************************************)
(* Display of scalars (guide + core lib docs: what `print` shows).         *)
(***************************************************************************)
RECURSIVE FracDigits(_, _, _)
FracDigits(rem, den, k) ==     \* decimal digits of rem/den, exact (den is a power of two)
    IF rem = 0 \/ k = 0 THEN ""
    ELSE ToString((rem * 10) \div den) \o FracDigits((rem * 10) % den, den, k - 1)

DisplayFlt(n, d) ==
    LET den == Pow2(d)
        ip  == Abs(n) \div den
        rem == Abs(n) % den
    IN (IF n < 0 THEN "-" ELSE "") \o ToString(ip) \o "."
       \o (IF rem = 0 THEN "0" ELSE FracDigits(rem, den, 20))

DisplayNum(v) ==
    CASE v.t = "int" -> ToString(v.v)
      [] v.t = "flt" -> DisplayFlt(v.n, v.d)
      [] v.t = "fsp" -> (IF v.v = "inf" THEN "inf" ELSE IF v.v = "ninf" THEN "-inf" ELSE "NaN")

DisplayRng(v) == ToString(v.a) \o (IF v.inc THEN "..=" ELSE "..") \o ToString(v.b)

(* Elements of a range as a sequence of ints (ascending or descending). *)
RngLen(r) == LET hi == IF r.inc THEN (IF r.a <= r.b THEN r.b + 1 ELSE r.b - 1) ELSE r.b IN
             Abs(hi - r.a)
RngAt(r, i) == IF r.a <= r.b THEN r.a + (i - 1) ELSE r.a - (i - 1)   \* 1-based
=============================================================================
