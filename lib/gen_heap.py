"""Histories of container operations for C14 (value model): every sequence of N actions over an action alphabet on
three variables, with the whole visible state printed after every action."""
import itertools, random
from kast import *

VARS = ["a", "b", "c"]


def observe():
    return [Core("print", [Tuple([Id(v) for v in VARS])])]


def actions():
    """(name, thunk -> list of statements). Every action is total on the states it is applied to or raises an
    error that the history catches (try/catch around each action keeps the history going)."""
    A = []
    for x in VARS:
        A.append(("%s=[1,2]" % x, lambda x=x: [Asg(x, List([Int(1), Int(2)]))]))
        A.append(("%s={k1:1,k2:2}" % x, lambda x=x: [Asg(x, Map(["k1", "k2"], [Int(1), Int(2)]))]))
    for x, y in itertools.permutations(VARS, 2):
        A.append(("%s=%s" % (x, y), lambda x=x, y=y: [Asg(x, Id(y))]))
        A.append(("%s=copy %s" % (x, y), lambda x=x, y=y: [Asg(x, Core("copy", [Id(y)]))]))
        A.append(("%s=deep_copy %s" % (x, y), lambda x=x, y=y: [Asg(x, Core("deep_copy", [Id(y)]))]))
        A.append(("%s.push %s" % (x, y), lambda x=x, y=y: [MCall(Id(x), "push", [Id(y)])]))
        A.append(("%s.extend %s" % (x, y), lambda x=x, y=y: [MCall(Id(x), "extend", [Id(y)])]))
        A.append(("%s=%s+%s" % (x, x, y), lambda x=x, y=y: [Asg(x, Bin("+", Id(y), Id(y)))]))
        A.append(("%s=(%s,9)" % (x, y), lambda x=x, y=y: [Asg(x, Tuple([Id(y), Int(9)]))]))
        A.append(("%s.insert k3 %s" % (x, y), lambda x=x, y=y: [MCall(Id(x), "insert", [Str("k3"), Id(y)])]))
        A.append(("%s=%s[0..1]" % (x, y), lambda x=x, y=y: [Asg(x, Idx(Id(y), Range(Int(0), Int(1))))]))
        A.append(("%s.swap %s" % (x, y), lambda x=x, y=y: [MCall(Id(x), "swap", [Id(y)])]))
    for x in VARS:
        A.append(("%s.extend %s" % (x, x), lambda x=x: [MCall(Id(x), "extend", [Id(x)])]))
        A.append(("%s.push 7" % x, lambda x=x: [MCall(Id(x), "push", [Int(7)])]))
        A.append(("%s.pop" % x, lambda x=x: [MCall(Id(x), "pop", [])]))
        A.append(("%s[0]=5" % x, lambda x=x: [IAsg(Id(x), Int(0), Int(5))]))
        A.append(("%s[0]=(k9,5)" % x, lambda x=x: [IAsg(Id(x), Int(0), Tuple([Str("k9"), Int(5)]))]))
        A.append(("%s.insert 0 8" % x, lambda x=x: [MCall(Id(x), "insert", [Int(0), Int(8)])]))
        A.append(("%s.remove 0" % x, lambda x=x: [MCall(Id(x), "remove", [Int(0)])]))
        A.append(("%s.remove k1" % x, lambda x=x: [MCall(Id(x), "remove", [Str("k1")])]))
        A.append(("%s.insert k1 0" % x, lambda x=x: [MCall(Id(x), "insert", [Str("k1"), Int(0)])]))
        A.append(("%s.k2=6" % x, lambda x=x: [DAsg(Id(x), "k2", Int(6))]))
        A.append(("%s.reverse" % x, lambda x=x: [MCall(Id(x), "reverse", [])]))
        A.append(("%s.sort" % x, lambda x=x: [MCall(Id(x), "sort", [])]))
        A.append(("%s.clear" % x, lambda x=x: [MCall(Id(x), "clear", [])]))
        A.append(("%s.fill 3" % x, lambda x=x: [MCall(Id(x), "fill", [Int(3)])]))
        A.append(("%s.resize 1" % x, lambda x=x: [MCall(Id(x), "resize", [Int(1)])]))
    return A


ACTIONS = actions()


def history_program(idx):
    """A program applying the actions with the given indices, each guarded by try/catch, observing after each."""
    reset_ids()
    xs = [Asg("a", List([Int(3), Int(1)])), Asg("b", Map(["k2", "k1"], [Int(20), Int(10)])), Asg("c", Int(0))] + observe()
    for i in idx:
        name, mk = ACTIONS[i]
        xs.append(Try(Block(mk()), [("e", "", Block([Core("print", [Str("error")])]))]))
        xs += observe()
    xs.append(Str("end"))
    return Block(xs)


def histories(n, rng=None, sample=None):
    space = len(ACTIONS) ** n
    if sample is None or sample >= space:
        for idx in itertools.product(range(len(ACTIONS)), repeat=n):
            yield idx
    else:
        seen = set()
        while len(seen) < sample:
            idx = tuple(rng.randrange(len(ACTIONS)) for _ in range(n))
            if idx not in seen:
                seen.add(idx)
                yield idx


# ---- laws -------------------------------------------------------------------------------------------------------
POOL = [lambda: Int(0), lambda: Int(1), lambda: Flt(2, 1), lambda: Flt(3, 1), lambda: Int(-1), lambda: Int(2), lambda: Flt(4, 1),
        lambda: Str(""), lambda: Str("a"), lambda: Str("ab"), lambda: Str("b"), lambda: Bool(True), lambda: Bool(False),
        lambda: Null(), lambda: Tuple([Int(1), Int(2)]), lambda: Tuple([Flt(2, 1), Int(2)]), lambda: Tuple([]),
        lambda: List([Int(1), Int(2)]), lambda: List([]), lambda: Map(["a"], [Int(1)]), lambda: Map([], []),
        lambda: Range(Int(0), Int(2))]
# Flt(2,1) = 1.0, Flt(3,1) = 1.5, Flt(4,1) = 2.0


def law_programs():
    """==, !=, <, <=, >, >= over all ordered pairs of the pool; map insert/get with every pair of hashable
    pool values as keys, in a small and in a larger map; sort of all permutations of small number lists."""
    for i, a in enumerate(POOL):
        for j, b in enumerate(POOL):
            reset_ids()
            xs = [Asg("x", a()), Asg("y", b())]
            for op in ("==", "!="):
                xs.append(Core("print", [Cmp([op], [Id("x"), Id("y")])]))
            xs.append(Try(Block([Core("print", [Cmp(["<"], [Id("x"), Id("y")])]), Core("print", [Cmp(["<="], [Id("x"), Id("y")])]),
                                 Core("print", [Cmp([">"], [Id("x"), Id("y")])]), Core("print", [Cmp([">="], [Id("x"), Id("y")])])]),
                          [("e", "", Block([Core("print", [Str("unordered")])]))]))
            xs.append(Str("end"))
            yield Block(xs)
    keys = [p for p in POOL[:17]]
    for i, a in enumerate(keys):
        for j, b in enumerate(keys):
            for big in (False, True):
                reset_ids()
                xs = [Asg("m", Map([], []))]
                if big:
                    xs.append(For(["i"], Range(Int(10), Int(30)), Block([MCall(Id("m"), "insert", [Id("i"), Id("i")])])))
                xs += [MCall(Id("m"), "insert", [a(), Str("first")]), Core("print", [MCall(Id("m"), "get", [b()])]),
                       Core("print", [MCall(Id("m"), "insert", [b(), Str("second")])]), Core("print", [Core("size", [Id("m")])]),
                       Core("print", [MCall(Id("m"), "get", [a()])]), Core("print", [MCall(Id("m"), "contains_key", [b()])]),
                       Core("print", [MCall(Id("m"), "remove", [b()])]), Core("print", [Core("size", [Id("m")])])]
                if not big:
                    xs.append(Core("print", [Id("m")]))
                xs.append(Str("end"))
                yield Block(xs)
    nums = [lambda: Int(3), lambda: Int(1), lambda: Flt(4, 1), lambda: Flt(3, 1), lambda: Int(-2)]
    for n in (0, 1, 2, 3, 4):
        for perm in itertools.permutations(range(len(nums)), n):
            reset_ids()
            yield Block([Asg("l", List([nums[k]() for k in perm])), Asg("r", MCall(Id("l"), "sort", [])), Core("print", [Id("l")]),
                         Core("print", [Cmp(["=="], [Id("l"), Id("r")])]), Str("end")])
    strs = ["b", "a", "ab", "", "B"]
    for perm in itertools.permutations(range(len(strs)), 3):
        reset_ids()
        yield Block([Asg("l", List([Str(strs[k]) for k in perm])), MCall(Id("l"), "sort", []), Core("print", [Id("l")]), Str("end")])
    # map order through operations
    for perm in itertools.permutations(["k3", "k1", "k2"], 3):
        reset_ids()
        yield Block([Asg("m", Map(list(perm), [Int(1), Int(2), Int(3)])), MCall(Id("m"), "insert", [Str(perm[1]), Int(9)]),
                     Core("print", [Id("m")]), MCall(Id("m"), "remove", [Str(perm[0])]), MCall(Id("m"), "insert", [Str(perm[0]), Int(8)]),
                     Core("print", [Id("m")]), MCall(Id("m"), "extend", [Map([perm[2], "zz"], [Int(7), Int(6)])]), Core("print", [Id("m")]),
                     IAsg(Id("m"), Int(1), Tuple([Str("new"), Int(5)])), Core("print", [Id("m")]), MCall(Id("m"), "sort", []),
                     Core("print", [Id("m")]), Core("print", [MCall(MCall(Id("m"), "keys", []), "to_tuple", [])]), Str("end")])


# ---- nesting x copy matrix ------------------------------------------------------------------------------------------
def derive_matrix():
    """Every way the guide offers to get a container from a container -- alias, copy, deep_copy, + with an empty operand on
    either side, + with itself, a slice that covers everything, a round trip through a tuple -- for empty and non-empty lists
    and maps, followed by a mutation through the derived name or through the original; both are printed.  Only the alias shares."""
    for kind, mk in (("list", lambda: List([Int(1), Int(2)])), ("list", lambda: List([])), ("map", lambda: Map(["k1"], [Int(1)])), ("map", lambda: Map([], []))):
        if kind == "list":
            derivs = [lambda: Id("x"), lambda: Core("copy", [Id("x")]), lambda: Core("deep_copy", [Id("x")]), lambda: Bin("+", Id("x"), List([])),
                      lambda: Bin("+", List([]), Id("x")), lambda: Bin("+", Id("x"), Id("x")), lambda: Idx(Id("x"), Range(Int(0), Core("size", [Id("x")]))),
                      lambda: Idx(Id("x"), Range(Int(0), Int(100))), lambda: MCall(MCall(Id("x"), "to_tuple", []), "to_list", []),
                      lambda: Bin("+", Id("x"), Tuple([])), lambda: MCall(Id("x"), "to_list", [])]
            muts = [lambda v: MCall(Id(v), "push", [Int(7)]), lambda v: MCall(Id(v), "clear", []), lambda v: MCall(Id(v), "insert", [Int(0), Int(8)]),
                    lambda v: MCall(Id(v), "extend", [Tuple([Int(5)])])]
        else:
            derivs = [lambda: Id("x"), lambda: Core("copy", [Id("x")]), lambda: Core("deep_copy", [Id("x")]), lambda: Bin("+", Id("x"), Map([], [])),
                      lambda: Bin("+", Map([], []), Id("x")), lambda: Bin("+", Id("x"), Id("x")), lambda: MCall(MCall(Id("x"), "to_tuple", []), "to_map", [])]
            muts = [lambda v: MCall(Id(v), "insert", [Str("z"), Int(7)]), lambda v: MCall(Id(v), "clear", []), lambda v: DAsg(Id(v), "k1", Int(70)),
                    lambda v: MCall(Id(v), "remove", [Str("k1")])]
        for d in derivs:
            for m in muts:
                for through in ("y", "x"):
                    reset_ids()
                    yield Block([Asg("x", mk()), Asg("y", d()), Try(Block([m(through)]), [("e", "", Block([Core("print", [Str("error")])]))]),
                                 Core("print", [Id("x")]), Core("print", [Id("y")]), Str("end")])


def copy_matrix():
    """A mutable container `inn` wrapped in every nest of lists / tuples / maps of depth 1..3, derived by alias /
    copy / deep_copy, then mutated through `inn` (deep) or at the top level; both values printed."""
    wraps = {"L": lambda e: List([e, Int(0)]), "T": lambda e: Tuple([e, Int(0)]), "M": lambda e: Map(["a"], [e])}
    for depth in (1, 2, 3):
        for shape in itertools.product("LTM", repeat=depth):
            for inner in ("list", "map"):
                for derive in ("alias", "copy", "deep_copy"):
                    for site in ("inner", "top"):
                        reset_ids()
                        inn = List([Int(1), Int(2)]) if inner == "list" else Map(["k1"], [Int(1)])
                        e = Id("inn")
                        for w in reversed(shape):
                            e = wraps[w](e)
                        xs = [Asg("inn", inn), Asg("x", e)]
                        if derive == "alias":
                            xs.append(Asg("y", Id("x")))
                        else:
                            xs.append(Asg("y", Core(derive, [Id("x")])))
                        if site == "inner":
                            xs.append(MCall(Id("inn"), "push", [Int(7)]) if inner == "list" else MCall(Id("inn"), "insert", [Str("z"), Int(7)]))
                        else:
                            top = shape[0]
                            if top == "L":
                                xs.append(MCall(Id("x"), "push", [Int(8)]))
                            elif top == "M":
                                xs.append(MCall(Id("x"), "insert", [Str("q"), Int(8)]))
                            else:
                                continue
                        xs += [Core("print", [Id("x")]), Core("print", [Id("y")]), Core("print", [Cmp(["=="], [Id("x"), Id("y")])]), Str("end")]
                        yield Block(xs)
