"""Program generators for C17: operators and protocols on objects (maps with metakeys)."""
import itertools, random
from kast import *

ARITH = ["+", "-", "*", "/", "%", "^"]
CMP = ["==", "!=", "<", "<=", ">", ">="]


def say(tag, val):
    """`say('tag', val)`: prints the tag (which function ran) and returns val."""
    return App(Id("say"), [Str(tag), val])


def prelude():
    return [Asg("say", Fn([Param("tag"), Param("v")], Block([Core("print", [Id("tag")]), Id("v")]))),
            Asg("un", Fn([Param("tag")], Block([Core("print", [Id("tag")]), Throw(Unimpl())])))]


def fn1(body):
    return Fn([Param("other")], Block([body]))


def fn0(body):
    return Fn([], Block([body]))


def obj(metas, data=None, shared=False):
    """An object expression with the given metakeys {key: value node}; shared => via with_meta."""
    data = data or {"d": Int(5)}
    ks, vs = list(data.keys()), list(data.values())
    if shared:
        return MCall(Map(ks, vs), "with_meta", [Map([], [], list(metas.keys()), list(metas.values()))])
    return Map(ks, vs, list(metas.keys()), list(metas.values()))


def operand(kind, op, side, shared=False):
    if kind == "num":
        return Int(3)
    if kind == "str":
        return Str("s")
    if kind == "map":
        return Map(["a"], [Int(1)])
    if kind == "obj0":
        return obj({"@type": Str("T" + side)}, {"d": Int(5 if side == "l" else 7)}, shared=shared)
    key = ("@" if side == "l" else "@r") + op
    # the two operands carry different data, and the result names both self and other: which operand was passed as which
    # is part of the prediction
    data = {"d": Int(5 if side == "l" else 7)}
    if kind == "objv":
        return obj({key: fn1(say(side + op, Tuple([Str("res" + side), Dot(Id("self"), "d"), Core("type", [Id("other")])]))), "@type": Str("T" + side)}, data, shared=shared)
    if kind == "obju":
        return obj({key: fn1(App(Id("un"), [Tuple([Str("unimpl" + side), Dot(Id("self"), "d")])])), "@type": Str("T" + side)}, data, shared=shared)
    if kind == "obje":
        return obj({key: Fn([Param("other")], Block([Throw(Str("op failed"))]))}, data, shared=shared)
    raise ValueError(kind)


def wrap(stmts):
    """try around the statements, printing 'error' (the kind of failure is part of the prediction)."""
    return Try(Block(stmts), [("e", "", Block([Core("print", [Str("error")])]))])


def arithmetic():
    for op in ARITH:
        for lk in ("num", "str", "map", "obj0", "objv", "obju", "obje"):
            for rk in ("num", "map", "obj0", "objv"):
                for shared in (False, True):
                    if shared and not (lk.startswith("obj") or rk.startswith("obj")):
                        continue
                    reset_ids()
                    xs = prelude() + [Asg("a", operand(lk, op, "l", shared)), Asg("b", operand(rk, op, "r", shared)),
                                      wrap([Asg("r", Bin(op, Id("a"), Id("b"))), Core("print", [Id("r")])]), Str("end")]
                    yield Block(xs)
    # compound assignment
    for op in ARITH:
        for lk in ("with", "only_op", "none"):
            reset_ids()
            metas = {"@type": Str("T")}
            if lk == "with":
                metas["@" + op + "="] = Fn([Param("other")], Block([DOpAsg(Id("self"), "d", "+", Int(100)), say("assign" + op, Id("self"))]))
            if lk in ("with", "only_op"):
                metas["@" + op] = fn1(say("plain" + op, Int(1)))
            xs = prelude() + [Asg("a", obj(metas)), wrap([OpAsg("a", op, Int(2)), Core("print", [Dot(Id("a"), "d")]),
                                                         Core("print", [Core("type", [Id("a")])])]), Str("end")]
            yield Block(xs)


def comparisons(rng=None, sample=None):
    keys = ["@==", "@!=", "@<", "@<=", ">@"[::-1], "@>="]
    keys = ["@==", "@!=", "@<", "@<=", "@>", "@>="]
    cases = []
    for r in range(0, 7):
        for subset in itertools.combinations(keys, r):
            for lt, eq in itertools.product((True, False), repeat=2):
                for op in CMP:
                    cases.append((subset, lt, eq, op))
    if sample and rng and len(cases) > sample:
        cases = rng.sample(cases, sample)
    for subset, lt, eq, op in cases:
        reset_ids()
        metas = {"@type": Str("T")}
        for k in subset:
            # @< answers lt, @== answers eq, the others answer by their own (distinct) constant so that it is visible
            # whether the runtime called them or derived the result
            val = {"@<": lt, "@==": eq, "@!=": True, "@<=": False, "@>": True, "@>=": False}[k]
            metas[k] = fn1(say(k, Bool(val)))
        xs = prelude() + [Asg("a", obj(metas)), wrap([Asg("r", Cmp([op], [Id("a"), Int(1)])), Core("print", [Id("r")])]),
                          Str("end")]
        yield Block(xs)
    # chains with objects: each operand evaluated once, stop at the first false link
    for lt in (True, False):
        reset_ids()
        metas = {"@<": fn1(say("@<", Bool(lt))), "@==": fn1(say("@==", Bool(False)))}
        yield Block(prelude() + [Asg("a", obj(metas)),
                                 wrap([Core("print", [Cmp(["<", "<"], [Id("a"), say("mid", Int(2)), say("last", Int(3))])])]), Str("end")])


def protocols():
    for shared in (False, True):
        O = lambda metas, data=None: obj(metas, data, shared)
        cases = [
            [Asg("a", O({"@negate": fn0(say("negate", Int(-7)))})), Core("print", [Neg(Id("a"))])],
            [Asg("a", O({"@type": Str("T")})), Core("print", [Neg(Id("a"))])],
            [Asg("a", O({"@size": fn0(say("size", Int(4)))})), Core("print", [Core("size", [Id("a")])])],
            [Asg("a", O({"@index": fn1(say("index", Bin("*", Id("other"), Int(2))))})), Core("print", [Idx(Id("a"), Int(4))])],
            [Asg("a", O({"@index_assign": Fn([Param("i"), Param("v")], Block([say("index_assign", Tuple([Id("i"), Id("v")]))]))})),
             IAsg(Id("a"), Int(1), Int(2)), Core("print", [Str("after")])],
            [Asg("a", O({"@call": fn1(say("call", Bin("+", Id("other"), Dot(Id("self"), "d"))))})), Core("print", [App(Id("a"), [Int(9)])])],
            # packed arguments are unpacked once, whatever is called
            [Asg("a", O({"@call": Fn([Param("p"), Param("q")], Block([say("call2", Tuple([Id("p"), Id("q"), Dot(Id("self"), "d")]))]))})),
             Asg("args", Tuple([Int(1), Int(2)])), Core("print", [App(Id("a"), [Spread(Id("args"))])])],
            [Asg("a", O({"@call": Fn([Param("p"), Param("q"), Param("r")], Block([say("call3", Tuple([Id("p"), Id("q"), Id("r")]))]))})),
             Asg("args", List([Int(1), Int(2)])), Core("print", [App(Id("a"), [Int(0), Spread(Id("args"))])])],
            [Asg("a", O({"@display": fn0(say("display", Str("shown")))})), Core("print", [Id("a")])],
            [Asg("a", O({"@type": Str("Foo")})), Core("print", [Core("type", [Id("a")])])],
            [Asg("a", O({"@negate": fn0(Int(1))})), Core("print", [Core("type", [Id("a")])])],
            [Asg("a", O({"@access": fn1(say("access", Id("other")))})), Core("print", [Dot(Id("a"), "foo")])],
            [Asg("a", O({"@access_assign": Fn([Param("k"), Param("v")], Block([say("access_assign", Tuple([Id("k"), Id("v")]))]))})),
             DAsg(Id("a"), "bar", Int(3)), Core("print", [Str("after")])],
            [Asg("a", O({"@iterator": fn0(say("iterator", Tuple([Int(1), Int(2)])))})),
             For(["v"], Id("a"), Block([Core("print", [Id("v")])]))],
            [Asg("a", O({"@next": fn0(If([Cmp(["<"], [Dot(Id("self"), "c"), Int(2)])],
                                         [Block([DOpAsg(Id("self"), "c", "+", Int(1))])], Block([Null()])))}, {"c": Int(0)})),
             For(["v"], Id("a"), Block([Core("print", [Id("v")])]))],
            # @next takes priority over @iterator
            [Asg("a", O({"@iterator": fn0(say("iterator", Tuple([Int(8)]))),
                         "@next": fn0(If([Cmp(["<"], [Dot(Id("self"), "c"), Int(1)])],
                                         [Block([DOpAsg(Id("self"), "c", "+", Int(1))])], Block([Null()])))}, {"c": Int(0)})),
             For(["v"], Id("a"), Block([Core("print", [Id("v")])]))],
            # ... in every place that iterates: unpacking, iterator functions, spreading into a call
            [Asg("a", O({"@iterator": fn0(say("iterator", Tuple([Int(8), Int(9)]))),
                         "@next": fn0(If([Cmp(["<"], [Dot(Id("self"), "c"), Int(2)])],
                                         [Block([DOpAsg(Id("self"), "c", "+", Int(1))])], Block([Null()])))}, {"c": Int(0)})),
             MAsg(["p", "q"], Id("a")), Core("print", [Tuple([Id("p"), Id("q")])])],
            [Asg("a", O({"@iterator": fn0(say("iterator", Tuple([Int(8), Int(9)]))),
                         "@next": fn0(If([Cmp(["<"], [Dot(Id("self"), "c"), Int(2)])],
                                         [Block([DOpAsg(Id("self"), "c", "+", Int(1))])], Block([Null()])))}, {"c": Int(0)})),
             Core("print", [MCall(Id("a"), "to_tuple", [])])],
            # comparing an object with itself is still a comparison: @== runs and its result is used (also for the derived !=)
            [Asg("a", O({"@==": fn1(say("eq", Bool(False)))})), Core("print", [Cmp(["=="], [Id("a"), Id("a")])]),
             Core("print", [Cmp(["!="], [Id("a"), Id("a")])]), Asg("b", Id("a")), Core("print", [Cmp(["=="], [Id("a"), Id("b")])])],
            [Asg("a", O({"@==": fn1(say("eq", Bool(True))), "@<": fn1(say("lt", Bool(True)))})), Core("print", [Cmp(["<"], [Id("a"), Id("a")])]),
             Core("print", [Cmp(["<="], [Id("a"), Id("a")])]), Core("print", [Cmp([">"], [Id("a"), Id("a")])]), Core("print", [Cmp([">="], [Id("a"), Id("a")])])],
            # @iterator "should return an iterable value that will then be used for iterator operations": a list, a map, a range
            [Asg("a", O({"@iterator": fn0(say("iterator", List([Int(8), Int(9)])))})),
             For(["v"], Id("a"), Block([Core("print", [Id("v")])]))],
            [Asg("a", O({"@iterator": fn0(say("iterator", Map(["k", "l"], [Int(1), Int(2)])))})),
             For(["v"], Id("a"), Block([Core("print", [Id("v")])]))],
            [Asg("a", O({"@iterator": fn0(say("iterator", Range(Int(3), Int(5))))})),
             For(["v"], Id("a"), Block([Core("print", [Id("v")])])), Core("print", [MCall(Id("a"), "to_list", [])])],
            [Asg("a", O({"@iterator": fn0(say("iterator", List([Int(8), Int(9)])))})),
             Core("print", [MCall(Id("a"), "to_tuple", [])])],
            # unpacking works with any iterable value: @iterator alone, @next asked once per target
            [Asg("a", O({"@iterator": fn0(say("iterator", Tuple([Int(8), Int(9), Int(10)])))})),
             MAsg(["p", "q"], Id("a")), Core("print", [Tuple([Id("p"), Id("q")])])],
            [Asg("a", O({"@iterator": fn0(say("iterator", List([Int(8)])))})),
             MAsg(["p", "q", "r"], Id("a")), Core("print", [Tuple([Id("p"), Id("q"), Id("r")])])],
            [Asg("a", O({"@next": Fn([], Block([Core("print", [Str("next")]),
                                                If([Cmp(["<"], [Dot(Id("self"), "c"), Int(2)])],
                                                   [Block([DOpAsg(Id("self"), "c", "+", Int(1))])], Block([Null()]))]))}, {"c": Int(0)})),
             MAsg(["p", "q", "r"], Id("a")), Core("print", [Tuple([Id("p"), Id("q"), Id("r")])]), Core("print", [Dot(Id("a"), "c")])],
            [Asg("a", O({"@next": Fn([], Block([Core("print", [Str("next")]), DOpAsg(Id("self"), "c", "+", Int(1))]))}, {"c": Int(0)})),
             MAsg(["p", "q"], Id("a")), MAsg(["r", "s"], Id("a")), Core("print", [Tuple([Id("p"), Id("q"), Id("r"), Id("s")])])],
        ]
        for c in cases:
            # a shared metamap with a block-bodied function is written as its own statement first (mm = ...; a = {..}.with_meta mm)
            for idx, st in enumerate(c):
                if (st["k"] == "asg" and st["e"]["k"] == "mcall" and st["e"]["m"] == "with_meta" and st["e"]["args"][0]["k"] == "map"
                        and any(v["k"] == "fn" and len(v["body"].get("xs", [])) > 1 for v in st["e"]["args"][0]["mvs"])):
                    mm = st["e"]["args"][0]
                    st["e"]["args"][0] = Id("mm")
                    c.insert(idx, Asg("mm", mm))
                    break
            reset_ids()
            yield Block(prelude() + [wrap(c), Str("end")])
    # access chain: own data -> @meta -> @base chain (depth <= 2)
    for where in ("own", "meta", "base", "basemeta", "base2", "missing"):
        for as_call in (False, True):
            reset_ids()
            val = (lambda tag: Fn([], Block([say(tag, Dot(Id("self"), "name"))]))) if as_call else (lambda tag: Str(tag))
            b2 = Map(["name"] + (["x"] if where == "base2" else []), [Str("b2")] + ([val("from-base2")] if where == "base2" else []),
                     ["@type"], [Str("Base2")])
            b1m = {"@type": Str("Base1"), "@base": Id("b2")}
            if where == "basemeta":
                b1m["@meta x"] = val("from-base-meta")
            b1 = Map(["name"] + (["x"] if where == "base" else []), [Str("b1")] + ([val("from-base")] if where == "base" else []),
                     list(b1m.keys()), list(b1m.values()))
            om = {"@type": Str("Derived"), "@base": Id("b1")}
            if where == "meta":
                om["@meta x"] = val("from-meta")
            o = Map(["name"] + (["x"] if where == "own" else []), [Str("own")] + ([val("from-own")] if where == "own" else []),
                    list(om.keys()), list(om.values()))
            use = MCall(Id("o"), "x", []) if as_call else Dot(Id("o"), "x")
            xs = prelude() + [Asg("b2", b2), Asg("b1", b1), Asg("o", o), wrap([Core("print", [use])]),
                              Core("print", [Core("type", [Id("o")])]),
                              wrap([Let("t1", "Base2", Id("o")), Core("print", [Str("is Base2")])]),
                              wrap([Let("t2", "Other", Id("o")), Core("print", [Str("is Other")])]), Str("end")]
            yield Block(xs)
