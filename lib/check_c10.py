"""C10 — layout and alternative spellings.
(a) Blocks.tla: TLC enumerates every typed line-prefix of block-structured programs within bounds; each is
    rendered to text and compiled: NeedsMore <=> indentation error; Complete => compiles.
(b) KotoCore programs of all families rendered in many layouts must all produce the machine's single prediction.
(c) variants that only add comments / blank lines / trailing whitespace must parse to the identical syntax tree."""
import json, random, re
import common, core_replay, kast, gen_core, gen_calls, gen_match, gen_errors

PROP = "C10"


def render_lines(lines):
    """Concrete text for a sequence of [d, c] line classes."""
    out = []
    parents = []          # (depth, kind) of open headers
    n = 0
    for l in lines:
        d, c = l["d"], l["c"]
        n += 1
        while parents and parents[-1][0] >= d:
            parents.pop()
        pk = parents[-1][1] if parents else None
        pad = "  " * d
        if c == "stmt":
            t = "v%d = %d" % (n, n)
        elif c == "fn":
            t = "f%d = |a|" % n
        elif c == "if":
            t = "if %d < 9" % n
        elif c == "elseif":
            t = "else if %d < 8" % n
        elif c == "else":
            t = "else"
        elif c == "while":
            t = "while false"
        elif c == "until":
            t = "until true"
        elif c == "for":
            t = "for i%d in 0..2" % n
        elif c == "loop":
            t = "loop"
        elif c == "try":
            t = "try"
        elif c == "catch":
            t = "catch e%d" % n
        elif c == "finally":
            t = "finally"
        elif c == "match":
            t = "match %d" % n
        elif c == "switch":
            t = "switch"
        elif c == "arminline":
            t = ("%d then %d" % (n, n)) if pk == "match" else ("false then %d" % n)
        elif c == "armheader":
            t = ("%d then" % n) if pk == "match" else "false then"
        elif c == "asgop":
            t = "w%d =" % n
        elif c == "binop":
            t = "w%d = %d +" % (n, n)
        elif c == "cont":
            t = "%d * 2" % n
        else:
            raise ValueError(c)
        out.append(pad + t)
        if c in ("fn", "if", "elseif", "else", "while", "until", "for", "loop", "try", "catch", "finally", "match",
                 "switch", "armheader", "asgop", "binop"):
            parents.append((d, c))
    return "\n".join(out) + "\n"


def blocks_part(rep, tier, rng):
    cfg = "MC_Blocks_quick.cfg" if tier == "quick" else "MC_Blocks_thorough.cfg"
    res = common.run_tlc("MC_Blocks", cfg, workers=8, timeout=1500)
    common.tlc_ok(res, "Blocks")
    for act in ("Stmt", "Header", "OpenLine", "Cont", "Follow", "ArmInline", "ArmHeader", "Close"):
        if res.coverage.get(act, (0, 0))[0] == 0:
            raise common.ToolError("Blocks: action %s never taken (vacuous model run)" % act)
    cases = {}
    for v in common.tlc_values(res, "CASE"):
        key = json.dumps(v["lines"])
        cases[key] = v
    cases = list(cases.values())
    if tier == "thorough" and len(cases) > 150000:
        rng.shuffle(cases)
        cases = cases[:150000]
    jobs = [{"id": i, "src": render_lines(c["lines"])} for i, c in enumerate(cases)]
    results = common.kv_parallel("compile", jobs)
    bad = 0
    for c, job, r in zip(cases, jobs, results):
        why = None
        st = r.get("status")
        if st in ("panic", "abort", "hang"):
            why = "compiler %s" % st
        elif not c["listed"]:
            pass          # arm header at the end: kind of error not fixed by the property
        elif c["needs_more"]:
            if not (st == "compile_error" and r.get("indentation_error")):
                why = "text ends on an open header/`=`/operator line but is not reported as an indentation error (%s)" % st
        else:
            if st == "compile_error" and r.get("indentation_error"):
                why = "text ends after a complete statement but is reported as an indentation error"
            elif c["complete"] and st != "ok":
                why = "complete block-structured program does not compile: %s" % (r.get("err_msg") or "")[:200]
        if st == "compile_error" and r.get("err_span"):
            # C12 part: the reported position lies inside the text
            nlines = job["src"].count("\n") + 1
            sp = r["err_span"]
            if sp[0] >= nlines or sp[2] >= nlines + 1:
                why = why or "compile error position outside the source text: %s" % sp
        if why:
            bad += 1
            if bad <= 50:
                rep.violation("blocks_%d" % job["id"], {"property": PROP, "part": "blocks", "why": why, "source": job["src"],
                                                        "lines": c["lines"], "predicted": c, "actual": r})
    return {"states": res.distinct, "transitions": res.states_generated, "cases": len(cases),
            "needs_more": sum(1 for c in cases if c["needs_more"]), "complete": sum(1 for c in cases if c["complete"]),
            "coverage": {k: v[0] for k, v in res.coverage.items()}, "sample": jobs[len(jobs) // 2]["src"]}


def mixed_programs(rng, n):
    g1 = gen_core.Gen(rng)
    g2 = gen_calls.CallGen(rng)
    ge = gen_errors.ErrGen(rng)
    out = []
    for i in range(n):
        k = i % 5
        if k == 0:
            out.append(g1.program())
        elif k == 1:
            out.append(g2.program())
        elif k == 2:
            out.append(gen_calls.generator_program(rng))
        elif k == 3:
            out.append(gen_match.match_random(rng, 1)[0])
        else:
            out.append(ge.program())
    return out


def strip_cosmetic(canon):
    return canon


def run(tier, seed):
    rep = common.Report(PROP, tier, "model_checking", seed)
    rng = random.Random(seed)
    quick = tier == "quick"
    b = blocks_part(rep, tier, rng)
    # (b) layouts
    asts = mixed_programs(rng, 250 if quick else 4000) + gen_calls.chain_programs(rng, 60 if quick else 800) \
        + gen_calls.bracket_programs(rng, 40 if quick else 500)
    progs = [{"id": "L%d" % i, "ast": a} for i, a in enumerate(asts)]
    preds, st = core_replay.predict(progs, tag="c10", shards=8, dev=("F28",))
    s = core_replay.replay(progs, preds, rep, rng, n_layouts=6 if quick else 16, contexts=("top", "fn3"))
    # (c) whitespace/comment-only variants parse to the identical tree
    jobs = []
    for p in progs[: (120 if quick else 1500)]:
        base = kast.render(p["ast"])
        lay = kast.Layout(None, comments=True)
        # comments and blank lines only: walk the canonical text and decorate it
        lines = base.split("\n")
        deco = []
        r2 = random.Random(rng.getrandbits(32))
        for ln in lines:
            if ln.strip() and r2.random() < 0.3:
                deco.append(re.match(r"^\s*", ln).group(0) + "# note %d" % len(deco))
            if r2.random() < 0.15:
                deco.append("")
            if ln.strip() and r2.random() < 0.3:
                ln = ln + "  # trailing %d" % len(deco)
            elif ln.strip() and r2.random() < 0.2:
                ln = ln + "   "
            deco.append(ln)
        jobs.append({"id": p["id"] + "|base", "src": base})
        jobs.append({"id": p["id"] + "|deco", "src": "\n".join(deco)})
    res = common.kv_parallel("parse", jobs)
    same = 0
    for i in range(0, len(res), 2):
        a, d = res[i], res[i + 1]
        if a.get("status") != "ok":
            continue
        if d.get("status") != "ok" or d.get("canon") != a.get("canon"):
            rep.violation("ws_%s" % jobs[i]["id"].split("|")[0],
                          {"property": PROP, "part": "comments/blank lines/trailing whitespace",
                           "why": "decorated text does not parse to the same syntax tree",
                           "source": jobs[i + 1]["src"], "base": jobs[i]["src"], "actual": d})
        else:
            same += 1
    rep.coverage = {
        "states": b["states"] + st["states"], "transitions": b["transitions"] + st["transitions"],
        "traces_validated_against_impl": b["cases"] + s["runs"] + same,
        "samples": [{"blocks_prefix": b["sample"]}, {"layout_variant": kast.render(asts[0], kast.Layout(random.Random(1), True))}],
        "evaluations": b["cases"] + s["runs"] + same,
        "distinct_nontrivial": b["cases"] + s["decided"],
        "rule": "Blocks.tla: every distinct typed prefix reachable within MaxLines/MaxDepth (quick 4/2, thorough 6/3) over "
                "the header alphabet {fn,if,else if,else,while,until,for,loop,try,catch,finally,match,switch,arm} plus "
                "lines ending in `=` / a binary operator; layouts: KotoCore programs of all families x layout vectors "
                "(inline/block if and arms, paren-free and piped calls, minimal/redundant parentheses, comments, blank "
                "lines, trailing whitespace) in 2 contexts; decorated variants parsed and compared tree-for-tree",
        "blocks": {k: b[k] for k in ("cases", "needs_more", "complete", "coverage")},
        "layout_programs": len(progs), "layout_runs": s["runs"], "layout_decided": s["decided"],
        "whitespace_variants_identical_tree": same, "exhaustive": False,
    }
    rep.assumptions = ["only freedoms the guide documents are exercised (DESIGN §7)",
                       "the interactive REPL is represented by Koto::compile + is_indentation_error (its on_line protocol)"]
    return rep.finish()


def replay(path):
    d = json.load(open(path))
    if d.get("part") == "blocks":
        r = common.kv("compile", [{"id": 0, "src": d["source"]}])[0]
        print(d["source"]); print("predicted:", d["predicted"]); print("actual:", r)
        nm = d["predicted"]["needs_more"]
        ind = r.get("status") == "compile_error" and r.get("indentation_error")
        if nm != bool(ind) or (d["predicted"]["complete"] and r.get("status") != "ok"):
            print("VIOLATION property=%s replay=%s" % (PROP, path)); return 1
        return 0
    if "predicted" in d and "ast" in d:
        return core_replay.generic_replay(PROP, path)
    r = common.kv("parse", [{"id": 0, "src": d["source"]}, {"id": 1, "src": d["base"]}])
    if r[0].get("canon") != r[1].get("canon"):
        print("VIOLATION property=%s replay=%s" % (PROP, path)); return 1
    return 0
