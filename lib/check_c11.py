"""C11 — the formatter preserves meaning, keeps comments, is idempotent and total.
Format is specified as a stuttering step on the abstract state (syntax tree, comment sequence) that is idempotent on
text (spec/Format.tla, validated as traces Original -> Format -> Format); meaning is additionally checked by running the
formatted text of generated programs against the KotoCore prediction.

Domain.  The formatter's line breaker is unreliable whenever something does not fit the line length (known finding LB, pinned
inputs in known_findings.json).  Everything except totality is therefore decided on the pairs (text, options) for which nothing
needs breaking: every line of the reference layout format(text, options with line_length = 255) is at most line_length wide and
no chain is broken that the text as given has on one line; and the syntax tree has none of the unusual shapes of known finding
WS (harness odd_shapes: a range as operand of a range without parentheses, a tuple without parentheses holding a call without
parentheses, a call without parentheses applied to a call result).
Outside the domain only totality (no panic, no error) is decided."""
import json, os, random, re
import common, corpus, core_replay, kast, gen_core, gen_calls, gen_match, gen_errors, gen_dispatch

PROP = "C11"


def strip_nested(s):
    out = []
    i = 0
    while i < len(s):
        if s.startswith("Nested(<", i):
            # remove "Nested(" and the ")" that follows the balanced <...>
            depth = 0
            j = i + 7
            k = j
            while k < len(s):
                if s[k] == "<":
                    depth += 1
                elif s[k] == ">":
                    depth -= 1
                    if depth == 0:
                        break
                elif s[k] == '"':
                    k += 1
                    while k < len(s) and s[k] != '"':
                        k += 2 if s[k] == "\\" else 1
                k += 1
            inner = s[j:k + 1]
            s = s[:i] + inner + s[k + 2:]
            continue
        i += 1
    return s


def _ws(m):
    return "expression_string: #s\"" + " ".join(m.group(1).split()) + "\""


# the text a `debug` expression quotes is the source text of its expression: its inner spacing is layout
COSMETIC = [(re.compile(r'expression_string: #s"((?:[^"\\\\]|\\\\.)*)"'), _ws), (re.compile(r"inline: (true|false)"), "inline: _"),
            (re.compile(r"braces: (true|false)"), "braces: _"), (re.compile(r"parens: (true|false)"), "parens: _")]


def canon(c):
    if c is None:
        return None
    for rx, rep in COSMETIC:
        c = rx.sub(rep, c)
    return c


def comments_of(src, lexed):
    out = []
    b = src.encode("utf-8")
    for t in lexed.get("toks", []):
        if t["k"] in ("CommentSingle", "CommentMulti"):
            text = b[t["s"]:t["e"]].decode("utf-8", "replace")
            out.append(" ".join(text.split()))
    return out


def run(tier, seed):
    rep = common.Report(PROP, tier, "exploration", seed)
    rng = random.Random(seed)
    quick = tier == "quick"
    texts = []
    for s in corpus.sources():
        texts.append(("corpus:" + s["name"], s["src"], None))
    g1, g2, ge = gen_core.Gen(rng), gen_calls.CallGen(rng), gen_errors.ErrGen(rng)
    gen_progs = []
    for i in range(120 if quick else 2500):
        for j, a in enumerate((g1.program(), g2.program(), gen_calls.generator_program(rng), gen_match.match_random(rng, 1)[0], ge.program())):
            gen_progs.append({"id": "g%d_%d" % (i, j), "ast": a})
    for a in list(gen_dispatch.protocols())[:40]:
        gen_progs.append({"id": "d%d" % len(gen_progs), "ast": a})
    preds, st = core_replay.predict(gen_progs, tag="c11", shards=8, dev=("F28",))
    NONASCII = {"cnt": "zähler", "lst": "liste_日", "thrower": "wérfer"}
    for p in gen_progs:
        lay = kast.Layout(random.Random(rng.getrandbits(32)), comments=True)
        src = kast.render(p["ast"], lay)
        if rng.random() < 0.3:
            for a, b in NONASCII.items():
                src = re.sub(r"\b%s\b" % a, b, src)
            src = src.replace("'boom", "'bööm😀")
        texts.append((p["id"], src, p["id"]))
    # string format options: fill x alignment x width x precision x representation
    specs = []
    for fill in ("", "_", "0", "é", "😀"):
        for al in ("", "<", "^", ">"):
            if fill and not al and fill != "0":
                continue
            for w in ("", "6", "06", "12"):
                if fill == "0" and not al and not w:
                    continue
                for pr in ("", ".0", ".3"):
                    for rp in ("", "?", "x", "X", "b", "o", "e", "E"):
                        specs.append(fill + al + w + pr + rp)
    specs = sorted(set(x for x in specs if x))
    if quick:
        specs = rng.sample(specs, 150)
    for i in range(0, len(specs), 6):
        src = "x = 42\ny = 3.14159\nz = 'héllo'\n" + "".join("print '{x:%s} {y:%s}' + \"{z:%s}\"\n" % (sp, sp, sp) for sp in specs[i:i + 6])
        texts.append(("specs:%d" % i, src, None))
    # block positions x expression forms x comments (FmtShapes.tla)
    sh = common.run_tlc("FmtShapes", "FmtShapes.cfg", workers=1, coverage=False, timeout=600)
    if sh.rc != 0:
        raise common.ToolError("FmtShapes.tla failed:\n" + sh.stdout[-2000:])
    shapes = sorted(common.tlc_values(sh, "SHAPES")[0], key=lambda x: x["text"])
    if quick:
        # the quick tier keeps every (header, body) pair once, the decoration drawn at random; and every decoration of the map bodies
        by = {}
        for x in shapes:
            by.setdefault((x["h"], x["b"]), []).append(x)
        shapes = [rng.choice(v) for k, v in sorted(by.items())] + [x for x in shapes if x["b"] in ("{a: 1}", "a: 1", "{}", "|a| {a}") and x["d"] != "none"]
    nshapes = len(shapes)
    for i, x in enumerate(shapes):
        texts.append(("shape:%d" % i, x["text"], None))
    # expression forms x expression positions (the second space of FmtShapes.tla), with and without a trailing comment
    pos = common.tlc_values(sh, "POSITIONS")[0]
    ptexts = [c.replace("$E", e, 1) for c in sorted(pos["c"]) for e in sorted(pos["e"])]
    ptexts += [t.split("\n", 1)[0] + " # c1\n" + t.split("\n", 1)[1] for t in ptexts]
    # ... and with non-ASCII identifiers and string contents in front of whatever follows on the line (byte offsets differ from columns)
    ptexts += [re.sub(r"\bx\b", "ñ日", t).replace("'s'", "'é😀'").replace("print", "print 'ö',") for t in ptexts if re.search(r"\bx\b|'s'|print", t)]
    npos_all = len(ptexts)
    if quick:
        ptexts = rng.sample(ptexts, 2400)
    for i, t in enumerate(ptexts):
        texts.append(("pos:%d" % i, t, None))
    if not quick:
        for s in corpus.sources():
            for k, v in enumerate(corpus.token_neighbourhood(s["src"], rng, 6)):
                texts.append(("mut:%s:%d" % (s["name"], k), v, None))
    LENGTHS = (20, 40, 60, 100, 160, 255)
    grid = [{"line_length": ll, "indent_width": iw, "chain_break_threshold": cb, "always_indent_arms": ai}
            for ll in LENGTHS for iw in (2, 4) for cb in (0, 2, 4) for ai in (False, True)]
    DEFAULT = {"line_length": 100, "indent_width": 2, "chain_break_threshold": 4, "always_indent_arms": False}
    jobs = []
    for n, (name, src, pid) in enumerate(texts):
        opts = [DEFAULT] + ([rng.choice(grid)] if quick else rng.sample(grid, 4))
        for k, o in enumerate(opts):
            jobs.append(dict({"id": "%d|%d" % (n, k), "src": src}, **o))
    res = common.kv_parallel("format", jobs, per_job_timeout=60)
    refs = common.kv_parallel("format", [dict(j, line_length=255) for j in jobs], per_job_timeout=60)
    ref_of = {j["id"]: r for j, r in zip(jobs, refs)}
    def chain_lines(t):
        return sum(1 for ln in t.split("\n") if ln.lstrip().startswith("."))
    # in the domain: the reference layout fits, and it breaks no chain that the text as given has on one line
    # (the formatter's own width estimate of a bracketed group counts the trailing comma it would write if the group were broken:
    # one more column per bracket pair on the line, crates/format/src/format.rs FormatItem::line_length / maybe_char)
    def slack(t):
        return max([sum(ln.count(c) for c in ")]}") for ln in t.split("\n")] or [0])
    in_domain = {j["id"]: (r.get("status") == "ok" and r.get("max_width", 10 ** 6) + slack(r.get("text", "")) <= j["line_length"]
                           and chain_lines(r.get("text", "")) <= chain_lines(j["src"]) and not r.get("odd_shapes"))
                 for j, r in zip(jobs, refs)}
    dom_count = {ll: [0, 0] for ll in LENGTHS}
    for j in jobs:
        dom_count[j["line_length"]][0] += 1
        dom_count[j["line_length"]][1] += 1 if in_domain[j["id"]] else 0
    # comments: lex input and output
    lex_jobs, lex_idx = [], []
    for job, r in zip(jobs, res):
        if r.get("status") == "ok":
            lex_jobs += [{"id": len(lex_jobs), "src": job["src"]}, {"id": len(lex_jobs) + 1, "src": r["text"]}]
            lex_idx.append((job, r))
    lexed = common.kv_parallel("lex", lex_jobs, per_job_timeout=30)
    formatted = outside = differs_from_reference = 0
    rerun = []
    traces = []
    for k, (job, r) in enumerate(lex_idx):
        n = int(job["id"].split("|")[0])
        name, src, pid = texts[n]
        if not in_domain[job["id"]]:
            outside += 1
            continue
        formatted += 1
        why = None
        ci, co = canon(r.get("canon_in")), canon(r.get("canon_out"))
        cin = comments_of(job["src"], lexed[2 * k])
        cout = comments_of(r["text"], lexed[2 * k + 1])
        traces.append({"id": job["id"], "events": [{"ast": common.sha(ci or ""), "com": common.sha(json.dumps(cin)), "txt": common.sha(job["src"])},
                                                    {"ast": common.sha(co or "!"), "com": common.sha(json.dumps(cout)), "txt": common.sha(r["text"])},
                                                    {"ast": common.sha(co or "!"), "com": common.sha(json.dumps(cout)), "txt": common.sha(r.get("text2") or "!")}],
                       "ref": common.sha(ref_of[job["id"]].get("text") or "!")})
        if r.get("canon_out") is None:
            why = "formatted text does not parse: %s" % (r.get("canon_out_err") or "")[:200]
        elif ci != co:
            i = 0
            while i < min(len(ci), len(co)) and ci[i] == co[i]:
                i += 1
            why = "formatted text parses to a different syntax tree: ...%s | ...%s" % (ci[max(0, i - 60):i + 80], co[max(0, i - 60):i + 80])
        elif cin != cout:
            why = "comments differ: %s vs %s" % (cin[:6], cout[:6])
        elif r.get("text2") != r.get("text"):
            why = "not idempotent: formatting the output changes it again"
        elif r.get("text") != ref_of[job["id"]].get("text"):
            differs_from_reference += 1            # allowed (e.g. a line exactly as long as the limit); reported in the evidence only
        if why:
            rep.violation("fmt_%s" % job["id"].replace("|", "_"), {"property": PROP, "why": why, "name": name, "options": {k2: v for k2, v in job.items() if k2 not in ("id", "src")},
                                                                    "source": job["src"], "formatted": r.get("text"), "formatted_twice": r.get("text2")})
        elif pid is not None and job["id"].endswith("|1"):
            renamed = any(ord(ch) > 127 for ch in job["src"])
            if renamed:
                rerun.append((pid, job, r["text"], "orig"))      # renamed text: compare with a run of the text as given
            elif preds[pid]["status"] in ("ok", "err"):
                rerun.append((pid, job, r["text"], "pred"))
    for job, r in zip(jobs, res):
        if r.get("status") in ("panic", "abort", "hang"):
            n = int(job["id"].split("|")[0])
            rep.violation("fmt_%s" % job["id"].replace("|", "_"), {"property": PROP, "why": "formatter %s: %s" % (r["status"], (r.get("err_msg") or "")[:300]),
                                                                    "name": texts[n][0], "source": job["src"], "options": {k2: v for k2, v in job.items() if k2 not in ("id", "src")}})
        elif r.get("status") == "format_error":
            n = int(job["id"].split("|")[0])
            rep.violation("fmt_%s" % job["id"].replace("|", "_"), {"property": PROP, "why": "formatter returned an error for a program that parses: %s" % (r.get("err_msg") or "")[:300],
                                                                    "name": texts[n][0], "source": job["src"]})
    # meaning: the formatted text of generated programs behaves as predicted
    rr = common.kv_parallel("run", [{"id": pid, "src": text, "limit_ms": 5000} for pid, job, text, mode in rerun])
    ro = common.kv_parallel("run", [{"id": pid, "src": job["src"], "limit_ms": 5000} for pid, job, text, mode in rerun if mode == "orig"])
    ro = iter(ro)
    for (pid, job, text, mode), r in zip(rerun, rr):
        if mode == "orig":
            o = next(ro)
            why = None if (o.get("status"), o.get("stdout"), o.get("value")) == (r.get("status"), r.get("stdout"), r.get("value")) \
                else "status/output %s/%r as given, %s/%r formatted" % (o.get("status"), (o.get("stdout") or "")[-200:], r.get("status"), (r.get("stdout") or "")[-200:])
        else:
            why = core_replay.compare(preds[pid], r)
        if why:
            rep.violation("meaning_%s" % pid, {"property": PROP, "why": "formatted program behaves differently: " + why, "source": job["src"], "formatted": text,
                                               "predicted": preds[pid] if mode == "pred" else None, "actual": r})
    # pinned inputs of the recorded line-breaking finding
    npinned = pinned(rep)
    # the traces against Format.tla
    pth = os.path.join(common.WORK, "fmt_traces_%d.ndjson" % os.getpid())
    with open(pth, "w") as f:
        for t in traces:
            f.write(json.dumps(t) + "\n")
    tl = common.run_tlc("Format", "Format.cfg", workers=4, env={"TRACES": pth}, timeout=900, coverage=False)
    os.remove(pth)
    if tl.rc != 0:
        raise common.ToolError("Format.tla failed:\n" + tl.stdout[-2000:])
    nbad = len(common.tlc_values(tl, "BAD"))
    if nbad != len([v for v in rep.violations if "/fmt_" in v]) and nbad > len(rep.violations):
        raise common.ToolError("Format.tla rejects %d traces but the driver reported %d" % (nbad, len(rep.violations)))
    rep.coverage = {
        "evaluations": len(jobs), "distinct_nontrivial": formatted,
        "rule": "inputs: corpus (%d texts), generated programs of all KotoCore families in random layouts with comments (some with "
                "non-ASCII identifiers and string contents), %d block-position shapes of FmtShapes.tla (headers x bodies x comment decorations) and %d of its %d expression-position texts%s; options: default plus %s of the 72-point grid line_length {20,40,60,100,160,255} x "
                "indent_width {2,4} x chain_break_threshold {0,2,4} x always_indent_arms; counted: (text, options) pairs in the domain (nothing needs breaking: every line of the layout for line_length 255 fits)" % (
                    len(corpus.sources()), nshapes, len(ptexts), npos_all, "" if quick else ", corpus token neighbourhood", "1 random point" if quick else "4 random points"),
        "samples": [{"input": texts[-1][1][:400]}],
        "states": st["states"] + tl.distinct, "transitions": st["transitions"] + tl.states_generated,
        "traces_validated_against_impl": len(traces), "meaning_reruns": len(rerun), "format_traces_rejected": nbad,
        "pairs_outside_domain_checked_for_totality_only": outside, "in_domain_layout_differs_from_reference": differs_from_reference, "pinned_known_finding_inputs": npinned,
        "in_domain_by_line_length": {str(k): "%d of %d" % (v[1], v[0]) for k, v in dom_count.items()},
        "explanation": "Format.tla states the property (stuttering on syntax tree and comment sequence, idempotent on text); the substance "
                       "is the exploration of inputs x options against the real formatter",
    }
    rep.assumptions = ["outside the domain (something does not fit the line length) only totality is decided: the formatter's line breaker is a "
                       "recorded known finding (LB) with pinned inputs",
                       "syntax trees are compared after removing purely cosmetic attributes (redundant parentheses, paren-free vs parenthesised "
                       "calls, inline vs block flags)", "comments are compared as whitespace-normalised text in order"]
    return rep.finish()


def outcome(r):
    """What is wrong with one format result (None: nothing)."""
    if r.get("status") in ("panic", "abort", "hang"):
        return "panic"
    if r.get("status") != "ok":
        return r.get("status")
    if r.get("canon_out") is None:
        return "noparse"
    if canon(r.get("canon_in")) != canon(r.get("canon_out")):
        return "ast"
    if r.get("text") != r.get("text2"):
        return "idem"
    return None


def pinned(rep):
    n = 0
    for f in rep.known:
        if PROP not in f.get("properties", [f.get("property")]):
            continue
        jobs = [dict({"id": c["case"], "src": c["source"]}, **c["options"]) for c in f["inputs"]]
        for c, r in zip(f["inputs"], common.kv("format", jobs)):
            n += 1
            got = outcome(r)
            if got is None:
                continue                                   # repaired: silent
            if got == c["kind"]:
                rep.known_finding(f["id"], "%s: %s" % (c["case"], c["what"]))
            else:
                rep.violation("pinned_%s" % c["case"], {"property": PROP, "finding": f["id"], "source": c["source"], "options": c["options"],
                                                        "why": "pinned known-finding input fails differently from what is recorded: %s instead of %s" % (got, c["kind"]),
                                                        "formatted": r.get("text")})
    return n


def replay(path):
    d = json.load(open(path))
    job = dict({"id": 0, "src": d["source"]}, **d.get("options", {}))
    r = common.kv("format", [job])[0]
    print(d["why"])
    if r.get("status") != "ok" or canon(r.get("canon_in")) != canon(r.get("canon_out")) or r.get("text") != r.get("text2"):
        print("VIOLATION property=%s replay=%s" % (PROP, path)); return 1
    return 0
