"""C11 — the formatter preserves meaning, keeps comments, is idempotent and total.
Format is specified as a stuttering step on the abstract state (syntax tree, comment sequence) that is idempotent on
text (spec/Format.tla, validated as traces Original -> Format -> Format); meaning is additionally checked by running the
formatted text of generated programs against the KotoCore prediction."""
import json, os, random, re
import common, corpus, core_replay, kast, gen_core, gen_calls, gen_match, gen_errors, gen_dispatch

PROP = "C11"


def strip_nested(s):
    out = []
    i = 0
    while i < len(s):
        if s.startswith("Nested(<", i):
            # remove "Nested(" and the ")" that follows the balanced <...>
            depth = 0
            j = i + 7
            k = j
            while k < len(s):
                if s[k] == "<":
                    depth += 1
                elif s[k] == ">":
                    depth -= 1
                    if depth == 0:
                        break
                elif s[k] == '"':
                    k += 1
                    while k < len(s) and s[k] != '"':
                        k += 2 if s[k] == "\\" else 1
                k += 1
            inner = s[j:k + 1]
            s = s[:i] + inner + s[k + 2:]
            continue
        i += 1
    return s


COSMETIC = [(re.compile(r"with_parens: (true|false)"), "with_parens: _"), (re.compile(r"inline: (true|false)"), "inline: _"),
            (re.compile(r"braces: (true|false)"), "braces: _"), (re.compile(r"parens: (true|false)"), "parens: _")]


def canon(c):
    if c is None:
        return None
    c = strip_nested(c)
    for rx, rep in COSMETIC:
        c = rx.sub(rep, c)
    return c


def comments_of(src, lexed):
    out = []
    b = src.encode("utf-8")
    for t in lexed.get("toks", []):
        if t["k"] in ("CommentSingle", "CommentMulti"):
            text = b[t["s"]:t["e"]].decode("utf-8", "replace")
            out.append(" ".join(text.split()))
    return out


def run(tier, seed):
    rep = common.Report(PROP, tier, "exploration", seed)
    rng = random.Random(seed)
    quick = tier == "quick"
    texts = []
    for s in corpus.sources():
        texts.append(("corpus:" + s["name"], s["src"], None))
    g1, g2, ge = gen_core.Gen(rng), gen_calls.CallGen(rng), gen_errors.ErrGen(rng)
    gen_progs = []
    for i in range(120 if quick else 2500):
        for j, a in enumerate((g1.program(), g2.program(), gen_calls.generator_program(rng), gen_match.match_random(rng, 1)[0], ge.program())):
            gen_progs.append({"id": "g%d_%d" % (i, j), "ast": a})
    for a in list(gen_dispatch.protocols())[:40]:
        gen_progs.append({"id": "d%d" % len(gen_progs), "ast": a})
    preds, st = core_replay.predict(gen_progs, tag="c11", shards=8, dev=("F28",))
    NONASCII = {"cnt": "zähler", "lst": "liste_日", "thrower": "wérfer"}
    for p in gen_progs:
        lay = kast.Layout(random.Random(rng.getrandbits(32)), comments=True)
        src = kast.render(p["ast"], lay)
        if rng.random() < 0.3:
            for a, b in NONASCII.items():
                src = re.sub(r"\b%s\b" % a, b, src)
            src = src.replace("'boom", "'bööm😀")
        texts.append((p["id"], src, p["id"]))
    if not quick:
        for s in corpus.sources():
            for k, v in enumerate(corpus.token_neighbourhood(s["src"], rng, 6)):
                texts.append(("mut:%s:%d" % (s["name"], k), v, None))
    grid = [{}] + [{"line_length": ll, "indent_width": iw, "chain_break_threshold": cb, "always_indent_arms": ai}
                   for ll in (20, 40, 100) for iw in (2, 4) for cb in (0, 2, 4) for ai in (False, True)]
    jobs = []
    for n, (name, src, pid) in enumerate(texts):
        opts = [grid[0]] + ([rng.choice(grid[1:])] if quick else rng.sample(grid[1:], 4))
        for k, o in enumerate(opts):
            jobs.append(dict({"id": "%d|%d" % (n, k), "src": src}, **o))
    res = common.kv_parallel("format", jobs, per_job_timeout=60)
    # comments: lex input and output
    lex_jobs, lex_idx = [], []
    for job, r in zip(jobs, res):
        if r.get("status") == "ok":
            lex_jobs += [{"id": len(lex_jobs), "src": job["src"]}, {"id": len(lex_jobs) + 1, "src": r["text"]}]
            lex_idx.append((job, r))
    lexed = common.kv_parallel("lex", lex_jobs, per_job_timeout=30)
    formatted = 0
    rerun = []
    traces = []
    for k, (job, r) in enumerate(lex_idx):
        formatted += 1
        n = int(job["id"].split("|")[0])
        name, src, pid = texts[n]
        why = None
        ci, co = canon(r.get("canon_in")), canon(r.get("canon_out"))
        cin = comments_of(job["src"], lexed[2 * k])
        cout = comments_of(r["text"], lexed[2 * k + 1])
        traces.append({"id": job["id"], "events": [{"ast": common.sha(ci or ""), "com": common.sha(json.dumps(cin)), "txt": common.sha(job["src"])},
                                                    {"ast": common.sha(co or "!"), "com": common.sha(json.dumps(cout)), "txt": common.sha(r["text"])},
                                                    {"ast": common.sha(co or "!"), "com": common.sha(json.dumps(cout)), "txt": common.sha(r.get("text2") or "!")}]})
        if r.get("canon_out") is None:
            why = "formatted text does not parse: %s" % (r.get("canon_out_err") or "")[:200]
        elif ci != co:
            i = 0
            while i < min(len(ci), len(co)) and ci[i] == co[i]:
                i += 1
            why = "formatted text parses to a different syntax tree: ...%s | ...%s" % (ci[max(0, i - 60):i + 80], co[max(0, i - 60):i + 80])
        elif cin != cout:
            why = "comments differ: %s vs %s" % (cin[:6], cout[:6])
        elif r.get("text2") != r.get("text"):
            why = "not idempotent: formatting the output changes it again"
        if why:
            rep.violation("fmt_%s" % job["id"].replace("|", "_"), {"property": PROP, "why": why, "name": name, "options": {k2: v for k2, v in job.items() if k2 not in ("id", "src")},
                                                                    "source": job["src"], "formatted": r.get("text"), "formatted_twice": r.get("text2")})
        elif pid is not None and job["id"].endswith("|1") and preds[pid]["status"] in ("ok", "err") and "zähler" not in job["src"]:
            rerun.append((pid, job, r["text"]))
    for job, r in zip(jobs, res):
        if r.get("status") in ("panic", "abort", "hang"):
            n = int(job["id"].split("|")[0])
            rep.violation("fmt_%s" % job["id"].replace("|", "_"), {"property": PROP, "why": "formatter %s: %s" % (r["status"], (r.get("err_msg") or "")[:300]),
                                                                    "name": texts[n][0], "source": job["src"], "options": {k2: v for k2, v in job.items() if k2 not in ("id", "src")}})
        elif r.get("status") == "format_error":
            n = int(job["id"].split("|")[0])
            rep.violation("fmt_%s" % job["id"].replace("|", "_"), {"property": PROP, "why": "formatter returned an error for a program that parses: %s" % (r.get("err_msg") or "")[:300],
                                                                    "name": texts[n][0], "source": job["src"]})
    # meaning: the formatted text of generated programs behaves as predicted
    rr = common.kv_parallel("run", [{"id": pid, "src": text, "limit_ms": 5000} for pid, job, text in rerun])
    for (pid, job, text), r in zip(rerun, rr):
        why = core_replay.compare(preds[pid], r)
        if why:
            rep.violation("meaning_%s" % pid, {"property": PROP, "why": "formatted program behaves differently: " + why, "source": job["src"], "formatted": text,
                                               "predicted": preds[pid], "actual": r})
    # the traces against Format.tla
    pth = os.path.join(common.WORK, "fmt_traces_%d.ndjson" % os.getpid())
    with open(pth, "w") as f:
        for t in traces:
            f.write(json.dumps(t) + "\n")
    tl = common.run_tlc("Format", "Format.cfg", workers=4, env={"TRACES": pth}, timeout=900, coverage=False)
    os.remove(pth)
    if tl.rc != 0:
        raise common.ToolError("Format.tla failed:\n" + tl.stdout[-2000:])
    nbad = len(common.tlc_values(tl, "BAD"))
    if nbad != len([v for v in rep.violations if "/fmt_" in v]) and nbad > len(rep.violations):
        raise common.ToolError("Format.tla rejects %d traces but the driver reported %d" % (nbad, len(rep.violations)))
    rep.coverage = {
        "evaluations": len(jobs), "distinct_nontrivial": formatted,
        "rule": "inputs: corpus (%d texts), generated programs of all KotoCore families in random layouts with comments (some with "
                "non-ASCII identifiers and string contents)%s; options: default plus %s of the 36-point grid line_length {20,40,100} x "
                "indent_width {2,4} x chain_break_threshold {0,2,4} x always_indent_arms; counted: inputs that parse and were formatted" % (
                    len(corpus.sources()), "" if quick else ", corpus token neighbourhood", "1 random point" if quick else "4 random points"),
        "samples": [{"input": texts[-1][1][:400]}],
        "states": st["states"] + tl.distinct, "transitions": st["transitions"] + tl.states_generated,
        "traces_validated_against_impl": len(traces), "meaning_reruns": len(rerun), "format_traces_rejected": nbad,
        "explanation": "Format.tla states the property (stuttering on syntax tree and comment sequence, idempotent on text); the substance "
                       "is the exploration of inputs x options against the real formatter",
    }
    rep.assumptions = ["syntax trees are compared after removing purely cosmetic attributes (redundant parentheses, paren-free vs parenthesised "
                       "calls, inline vs block flags)", "comments are compared as whitespace-normalised text in order"]
    return rep.finish()


def replay(path):
    d = json.load(open(path))
    job = dict({"id": 0, "src": d["source"]}, **d.get("options", {}))
    r = common.kv("format", [job])[0]
    print(d["why"])
    if r.get("status") != "ok" or canon(r.get("canon_in")) != canon(r.get("canon_out")) or r.get("text") != r.get("text2"):
        print("VIOLATION property=%s replay=%s" % (PROP, path)); return 1
    return 0
