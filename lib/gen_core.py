"""Program generators for the KotoCore family (C01 profile `core`).

Programs are well-defined by construction as far as that is cheap to guarantee (every read is
dominated by an assignment, loops are counter-bounded); whatever slips through is caught by the
machine itself (it stops in `unspec`) and is discarded, never reported.
"""
import itertools, random
from kast import *

ARITH = ["+", "-", "*", "/", "%", "^"]
CMPS = ["<", "<=", ">", ">="]
EQS = ["==", "!="]

INT_POOL = [0, 1, 2, 3, -1, -3, 7, 10]
FLT_POOL = [(1, 1), (3, 1), (2, 0), (-1, 2), (5, 2)]      # 0.5 1.5 2.0 -0.25 1.25
STR_POOL = ["", "a", "ab", "b", "x y"]


class Scope:
    def __init__(self, parent=None):
        self.vars = dict(parent.vars) if parent else {}   # name -> kind
        self.counter = parent.counter if parent else [0]
        self.frozen = set(parent.frozen) if parent else set()   # vars that must not be mutated / reassigned
        # names a function body sees through capture, and whether the code position is inside a block of that function that
        # may not run: assigning a captured name there makes it a local of the whole function that is unassigned on the paths
        # that skip the block (Koto scopes statically by parse order; reading it afterwards is unspecified) -- never generated
        self.captured = set(parent.captured) if parent else set()
        self.cond = parent.cond if parent else False

    def fresh(self, prefix="v"):
        self.counter[0] += 1
        return "%s%d" % (prefix, self.counter[0])

    def of_kind(self, *kinds):
        return [v for v, k in self.vars.items() if k in kinds]

    def assignable(self, v):
        return v not in self.frozen and not (self.cond and v in self.captured)

    def mutable(self, *kinds):
        return [v for v, k in self.vars.items() if k in kinds and v not in self.frozen]


class Gen:
    def __init__(self, rng, max_depth=3, tracer=True):
        self.r = rng
        self.max_depth = max_depth
        self.tracer = tracer

    # ---- expressions --------------------------------------------------------------------------
    def lit_num(self):
        if self.r.random() < 0.75:
            return Int(self.r.choice(INT_POOL))
        n, d = self.r.choice(FLT_POOL)
        return Flt(n, d)

    def leaf(self, sc, kind):
        r = self.r
        vs = sc.of_kind(kind)
        if vs and r.random() < 0.55:
            return Id(r.choice(vs))
        if kind == "num":
            return self.lit_num()
        if kind == "bool":
            return Bool(r.random() < 0.5)
        if kind == "str":
            return Str(r.choice(STR_POOL))
        if kind == "null":
            return Null()
        if kind == "list":
            return List([self.expr(sc, "num", 1) for _ in range(r.randrange(0, 4))])
        if kind == "tuple":
            return Tuple([self.expr(sc, "num", 1) for _ in range(r.randrange(0, 4))])
        if kind == "map":
            n = r.randrange(0, 3)
            ks = r.sample(["a", "b", "c", "k"], n)
            return Map(ks, [self.expr(sc, "num", 1) for _ in ks])
        if kind == "range":
            a = r.choice([0, 1, 2])
            return Range(Int(a), Int(a + r.choice([0, 1, 2, 3])), r.random() < 0.3)
        return Null()

    def any_kind(self):
        return self.r.choice(["num", "num", "num", "bool", "str", "null", "list", "tuple", "map", "range"])

    def trace(self, e):
        """Wrap e so that its evaluation is visible in the output (evaluation order / evaluate-once)."""
        if self.tracer and self.r.random() < 0.25:
            return App(Id("t"), [e])
        return e

    def expr(self, sc, kind, depth):
        r = self.r
        if depth <= 0 or r.random() < 0.25:
            return self.leaf(sc, kind)
        if r.random() < 0.03:
            kind2 = self.any_kind()       # occasionally ill-typed on purpose: error paths
            return self.expr(sc, kind2, depth - 1)
        if kind == "num":
            c = r.random()
            if c < 0.55:
                op = r.choice(ARITH)
                a = self.trace(self.expr(sc, "num", depth - 1))
                b = self.trace(self.expr(sc, "num", depth - 1))
                if op == "^":
                    b = Int(r.choice([0, 1, 2, 3, -1]))
                if op == "/" and r.random() < 0.8:
                    b = r.choice([Int(1), Int(2), Int(4), Int(-2), Flt(1, 1), Int(0)])
                return Bin(op, a, b)
            if c < 0.62:
                return Neg(self.expr(sc, "num", depth - 1))
            if c < 0.72:
                return Idx(self.expr(sc, r.choice(["list", "tuple", "range"]), depth - 1),
                           Int(r.choice([0, 0, 1, 2, 5])))
            if c < 0.78:
                return Core("size", [self.expr(sc, r.choice(["list", "tuple", "str", "map", "range"]), depth - 1)])
            if c < 0.86:
                return If([self.expr(sc, "bool", depth - 1)], [self.expr(sc, "num", depth - 1)],
                          self.expr(sc, "num", depth - 1) if r.random() < 0.8 else None)
            if c < 0.92:
                # and/or yield the deciding operand
                return (And if r.random() < 0.5 else Or)(self.trace(self.expr(sc, self.any_kind(), depth - 1)),
                                                         self.trace(self.expr(sc, "num", depth - 1)))
            ms = sc.of_kind("map")
            if ms and c < 0.96:
                return MCall(Id(r.choice(ms)), "get", [Str(r.choice(["a", "b", "c", "k"]))])
            return self.leaf(sc, "num")
        if kind == "bool":
            c = r.random()
            if c < 0.35:
                n = r.choice([1, 1, 1, 2, 3])
                xs = [self.trace(self.expr(sc, "num", depth - 1)) for _ in range(n + 1)]
                return Cmp([r.choice(CMPS) for _ in range(n)], xs)
            if c < 0.55:
                k2 = self.any_kind()
                return Cmp([r.choice(EQS)], [self.expr(sc, k2, depth - 1),
                                             self.expr(sc, k2 if r.random() < 0.8 else self.any_kind(), depth - 1)])
            if c < 0.7:
                return (And if r.random() < 0.5 else Or)(self.trace(self.expr(sc, "bool", depth - 1)),
                                                         self.trace(self.expr(sc, "bool", depth - 1)))
            if c < 0.8:
                return Not(self.expr(sc, self.any_kind(), depth - 1))
            if c < 0.88:
                return Cmp([r.choice(CMPS)], [self.expr(sc, "str", depth - 1), self.expr(sc, "str", depth - 1)])
            if c < 0.94:
                k2 = r.choice(["list", "tuple"])
                return MCall(self.expr(sc, k2, depth - 1), "contains", [self.expr(sc, "num", depth - 1)])
            return self.leaf(sc, "bool")
        if kind == "str":
            c = r.random()
            if c < 0.3:
                return Bin("+", self.expr(sc, "str", depth - 1), self.expr(sc, "str", depth - 1))
            if c < 0.6:
                parts = []
                for _ in range(r.randrange(1, 4)):
                    if r.random() < 0.5:
                        parts.append(Str(r.choice(["a", "b ", "-", "="])))
                    else:
                        parts.append(self.interp_expr(sc, depth - 1))
                return IStr(parts)
            if c < 0.7:
                return Core("type", [self.expr(sc, self.any_kind(), depth - 1)])
            if c < 0.8:
                return Idx(self.expr(sc, "str", depth - 1), Int(r.choice([0, 1, 3])))
            return self.leaf(sc, "str")
        if kind == "list":
            c = r.random()
            if c < 0.35:
                return List([self.trace(self.expr(sc, self.any_kind() if r.random() < 0.3 else "num", depth - 1))
                             for _ in range(r.randrange(0, 4))])
            if c < 0.5:
                # joins create new lists: operands are often existing variables or empty lists, so that
                # aliasing between the result and an operand would be visible after a later mutation
                def side():
                    vs = sc.of_kind("list")
                    q = r.random()
                    if vs and q < 0.5:
                        return Id(r.choice(vs))
                    if q < 0.7:
                        return List([])
                    return self.expr(sc, "list", depth - 1)
                return Bin("+", side(), side())
            if c < 0.65:
                a = r.choice([0, 0, 0, 1, 2])
                vs = sc.of_kind("list")
                base = Id(r.choice(vs)) if vs and r.random() < 0.5 else self.expr(sc, "list", depth - 1)
                return Idx(base, Range(Int(a), Int(a + r.choice([0, 1, 2])), r.random() < 0.3))
            if c < 0.72:
                return MCall(self.expr(sc, "tuple", depth - 1), "to_list", [])
            return self.leaf(sc, "list")
        if kind == "tuple":
            c = r.random()
            if c < 0.4:
                return Tuple([self.trace(self.expr(sc, self.any_kind() if r.random() < 0.3 else "num", depth - 1))
                              for _ in range(r.randrange(0, 4))])
            if c < 0.55:
                return Bin("+", self.expr(sc, "tuple", depth - 1), self.expr(sc, "tuple", depth - 1))
            if c < 0.7:
                a = r.choice([0, 0, 1, 2])
                return Idx(self.expr(sc, "tuple", depth - 1), Range(Int(a), Int(a + r.choice([0, 1, 2])), r.random() < 0.3))
            if c < 0.78:
                return MCall(self.expr(sc, "list", depth - 1), "to_tuple", [])
            return self.leaf(sc, "tuple")
        if kind == "map":
            c = r.random()
            if c < 0.5:
                n = r.randrange(0, 4)
                ks = [r.choice(["a", "b", "c", "k"]) for _ in range(n)]
                ks = list(dict.fromkeys(ks))
                return Map(ks, [self.trace(self.expr(sc, "num", depth - 1)) for _ in ks])
            if c < 0.65:
                def mside():
                    vs = sc.of_kind("map")
                    q = r.random()
                    if vs and q < 0.5:
                        return Id(r.choice(vs))
                    if q < 0.7:
                        return Map([], [])
                    return self.expr(sc, "map", depth - 1)
                return Bin("+", mside(), mside())
            return self.leaf(sc, "map")
        if kind == "range":
            if r.random() < 0.5:
                return Range(self.int_expr(sc), self.int_expr(sc), r.random() < 0.3)
            return self.leaf(sc, "range")
        return self.leaf(sc, kind)

    def int_expr(self, sc):
        r = self.r
        a = Int(r.choice([0, 1, 2, 3]))
        if r.random() < 0.5:
            return a
        return Bin(r.choice(["+", "*", "-"]), a, Int(r.choice([0, 1, 2])))

    def interp_expr(self, sc, depth):
        """Expression inside {…} of an interpolated string: no quotes inside."""
        r = self.r
        vs = sc.of_kind("num", "bool", "str", "list", "tuple", "null", "range")
        if vs and r.random() < 0.6:
            return Id(r.choice(vs))
        return Bin(r.choice(["+", "*", "-"]), self.leaf(sc, "num"), Int(r.choice([1, 2, 3])))

    # ---- statements -----------------------------------------------------------------------------
    def assign(self, sc, depth):
        r = self.r
        kind = self.any_kind()
        # assign to a fresh variable, or re-assign an existing one (possibly changing its kind)
        cands = [v for v in sc.vars if sc.assignable(v)]
        if cands and r.random() < 0.4:
            name = r.choice(cands)
        else:
            name = sc.fresh()
        e = self.expr(sc, kind, depth)
        # the target may be read by the expression (x = y and x, x = {v: x}, ...): the old value is read, then assigned
        sc.vars[name] = kind
        return Asg(name, e)

    def alias_probe(self, sc):
        """w = <derivation of a container variable>; mutate w. Sharing (plain assignment) versus the
        derivations the guide says create new containers (+, slices, copy) shows in the final prints."""
        r = self.r
        kind = r.choice(["list", "list", "map"])
        vs = sc.of_kind(kind)
        pre = []
        if not vs:
            v = sc.fresh()
            sc.vars[v] = kind
            pre.append(Asg(v, List([Int(1), Int(2)]) if kind == "list" else Map(["a"], [Int(1)])))
        else:
            v = r.choice(vs)
        w = sc.fresh()
        sc.vars[w] = kind
        if kind == "list":
            e = r.choice([lambda: Id(v), lambda: Bin("+", Id(v), List([])), lambda: Bin("+", List([]), Id(v)),
                          lambda: Bin("+", Id(v), Id(v)), lambda: Idx(Id(v), Range(Int(0), Core("size", [Id(v)]))),
                          lambda: Core("copy", [Id(v)]), lambda: MCall(MCall(Id(v), "to_tuple", []), "to_list", [])])()
            mut = r.choice([lambda: MCall(Id(w), "push", [Int(r.choice([7, 8, 9]))]),
                            lambda: IAsg(Id(w), Int(0), Int(r.choice([70, 80]))),
                            lambda: MCall(Id(w), "pop", []), lambda: MCall(Id(w), "clear", [])])()
        else:
            e = r.choice([lambda: Id(v), lambda: Bin("+", Id(v), Map([], [])), lambda: Bin("+", Map([], []), Id(v)),
                          lambda: Core("copy", [Id(v)])])()
            mut = r.choice([lambda: MCall(Id(w), "insert", [Str("z"), Int(r.choice([7, 8]))]),
                            lambda: DAsg(Id(w), "a", Int(r.choice([70, 80]))),
                            lambda: MCall(Id(w), "remove", [Str("a")])])()
        target_frozen = w in sc.frozen or v in sc.frozen
        return Block(pre + [Asg(w, e)] + ([] if target_frozen else [mut]))

    def stmt(self, sc, depth, in_loop):
        r = self.r
        c = r.random()
        if r.random() < 0.07:
            return self.alias_probe(sc)
        if self.tracer and r.random() < 0.05:
            # a comparison chain whose value is not used: the operands are still evaluated left to right, each once, and
            # evaluation stops at the first false link (guide: chained comparisons), wherever the expression stands
            n = r.choice([2, 3, 3])
            # (number literals only: whether an ill-typed last link still throws when the value is unused is E1, unspecified)
            xs = [App(Id("t"), [self.lit_num()]) for _ in range(n + 1)]
            return Cmp([r.choice(CMPS) for _ in range(n)], xs)
        if r.random() < 0.04:
            # a function literal whose value is not used: creating a function runs nothing
            body = [Core("print", [Str("never")])]
            if r.random() < 0.5:
                body.append(Return(Int(99)))
            else:
                body.append(Int(98))
            return Fn([Param("p%d" % r.randrange(100))] if r.random() < 0.5 else [], Block(body))
        if depth <= 0:
            c = c * 0.5
        if c < 0.22:
            return self.assign(sc, min(depth, 2) + 1)
        if c < 0.30:
            vs = [v for v in sc.mutable("num") if sc.assignable(v)]
            if vs:
                v = r.choice(vs)
                e = self.expr(sc, "num", 1)
                if v in ids_read(e):
                    e = self.lit_num()
                return OpAsg(v, r.choice(["+", "-", "*", "/", "%"]), e)
            return self.assign(sc, 2)
        if c < 0.34:
            return Core("print", [self.expr(sc, self.any_kind(), 2)])
        if c < 0.44:
            vs = sc.mutable("list")
            if vs:
                v = r.choice(vs)
                m = r.choice(["push", "pop", "iasg", "iopasg", "insert", "remove", "clear", "reverse"])
                if m == "push":
                    return MCall(Id(v), "push", [self.expr(sc, "num", 1)])
                if m == "iasg":
                    return IAsg(Id(v), Int(r.choice([0, 1, 2])), self.expr(sc, "num", 1))
                if m == "iopasg":
                    return IOpAsg(Id(v), Int(r.choice([0, 1])), r.choice(["+", "*", "-"]), self.lit_num())
                if m == "insert":
                    return MCall(Id(v), "insert", [Int(r.choice([0, 1, 4])), self.expr(sc, "num", 1)])
                if m == "remove":
                    return MCall(Id(v), "remove", [Int(r.choice([0, 1, 4]))])
                return MCall(Id(v), m, [])
            return self.assign(sc, 2)
        if c < 0.50:
            vs = sc.mutable("map")
            if vs:
                v = r.choice(vs)
                m = r.choice(["insert", "remove", "dasg", "dopasg"])
                key = r.choice(["a", "b", "c", "k"])
                if m == "insert":
                    return MCall(Id(v), "insert", [Str(key), self.expr(sc, "num", 1)])
                if m == "remove":
                    return MCall(Id(v), "remove", [Str(key)])
                if m == "dasg":
                    return DAsg(Id(v), key, self.expr(sc, "num", 1))
                return MCall(Id(v), "insert", [Str(key), self.expr(sc, "num", 1)])
            return self.assign(sc, 2)
        if c < 0.53:
            ns = [sc.fresh() for _ in range(r.randrange(2, 4))]
            if r.random() < 0.3:
                ns[r.randrange(len(ns))] = "_"
            e = self.expr(sc, r.choice(["list", "tuple", "tuple", "range", "num"]), 2)
            for n in ns:
                if n != "_":
                    sc.vars[n] = "any"
            return MAsg(ns, e)
        if c < 0.62:
            return self.if_stmt(sc, depth, in_loop)
        if c < 0.67:
            return self.switch_stmt(sc, depth, in_loop)
        if c < 0.85:
            return self.loop_stmt(sc, depth)
        if in_loop and c < 0.93:
            if r.random() < 0.5:
                bv = self.expr(sc, "num", 1) if (in_loop == "value" and r.random() < 0.6) else None
                return If([self.expr(sc, "bool", 1)], [Block([Break(bv)])])
            return If([self.expr(sc, "bool", 1)], [Block([Continue()])])
        return Core("print", [self.expr(sc, self.any_kind(), 2)])

    def body(self, sc, depth, in_loop, n=None):
        """A block; assignments made inside do not count as definitely assigned outside."""
        inner = Scope(sc)
        inner.cond = True
        k = n if n is not None else self.r.randrange(1, 4)
        xs = []
        for _ in range(k):
            st = self.stmt(inner, depth - 1, in_loop)
            xs += st["xs"] if st["k"] == "block" else [st]
        # kinds of outer variables re-assigned inside become unknown outside
        for v, kd in inner.vars.items():
            if v in sc.vars and sc.vars[v] != kd:
                sc.vars[v] = "any"
        return Block(xs)

    def if_stmt(self, sc, depth, in_loop):
        r = self.r
        n = r.choice([1, 1, 2, 3])
        cs = [self.expr(sc, "bool" if r.random() < 0.8 else self.any_kind(), 2) for _ in range(n)]
        bs = [self.body(sc, depth, in_loop) for _ in range(n)]
        e = self.body(sc, depth, in_loop) if r.random() < 0.6 else None
        node = If(cs, bs, e)
        return self.maybe_value(sc, node)

    def switch_stmt(self, sc, depth, in_loop):
        r = self.r
        n = r.choice([1, 2, 3])
        cs = [self.expr(sc, "bool", 2) for _ in range(n)]
        bs = [self.body(sc, depth, in_loop) for _ in range(n)]
        e = self.body(sc, depth, in_loop) if r.random() < 0.6 else None
        return self.maybe_value(sc, Switch(cs, bs, e))

    def maybe_value(self, sc, node, as_value=None):
        """Use a block construct as a statement or as the value assigned to a fresh variable."""
        if as_value is None:
            as_value = self.r.random() < 0.4
        if as_value:
            name = sc.fresh()
            sc.vars[name] = "any"
            return Asg(name, node)
        return node

    def loop_stmt(self, sc, depth):
        r = self.r
        c = r.random()
        as_value = r.random() < 0.4
        mode = "value" if as_value else "stmt"
        if c < 0.45:
            # for over a built-in iterable
            kind = r.choice(["range", "list", "tuple", "str", "range"])
            it = self.expr(sc, kind, 1)
            inner = Scope(sc)
            for v in ids_read(it):
                inner.frozen.add(v)
            x = inner.fresh("i")
            inner.vars[x] = "num" if kind != "str" else "str"
            inner.frozen.add(x)
            body = self.body(inner, depth, mode)
            return self.maybe_value(sc, For([x], it, body), as_value)
        i = sc.fresh("n")
        bound = r.choice([0, 1, 2, 3])
        init = Asg(i, Int(0))
        sc.vars[i] = "num"
        inner = Scope(sc)
        inner.frozen.add(i)
        inc = OpAsg(i, "+", Int(1))
        if c < 0.7:
            body = self.body(inner, depth, mode)
            body["xs"].insert(0, inc)
            cond = Cmp(["<"], [Id(i), Int(bound)])
            node = While(cond, body) if r.random() < 0.6 else Until(Cmp([">="], [Id(i), Int(bound)]), body)
        else:
            body = self.body(inner, depth, mode)
            body["xs"].insert(0, inc)
            body["xs"].insert(1, If([Cmp([">"], [Id(i), Int(bound)])],
                                    [Block([Break(self.expr(sc, "num", 1) if (as_value and r.random() < 0.6) else None)])]))
            node = Loop(body)
        return Block([init, self.maybe_value(sc, node, as_value)])

    # ---- whole programs ---------------------------------------------------------------------------
    def program(self, nstmts=None):
        reset_ids()
        sc = Scope()
        xs = []
        if self.tracer:
            xs.append(Asg("t", Fn([Param("x")], Block([Core("print", [Id("x")]), Id("x")]))))
        n = nstmts or self.r.randrange(2, 8)
        for _ in range(n):
            s = self.stmt(sc, self.max_depth, False)
            if s["k"] == "block":
                xs += s["xs"]
            else:
                xs.append(s)
        # observe the final state
        for v, k in sorted(sc.vars.items()):
            xs.append(Core("print", [Id(v)]))
        t = self.tail(sc)
        xs += t["xs"] if t["k"] == "block" else [t]
        return Block(xs)

    def tail(self, sc):
        """The last expression of a program / function body (its value is the result): an expression, or a
        block construct in result position -- in particular loops that never run (null), if without else,
        switch without a matching arm."""
        r = self.r
        c = r.random()
        if c < 0.6:
            return self.expr(sc, self.any_kind(), 2)
        # first use some temporaries, so that a stale register would be visible
        pre = Asg(sc.fresh(), Bin("*", Int(r.choice([3, 5])), Int(r.choice([4, 7]))))
        sc.vars[pre["n"]] = "num"
        if c < 0.75:
            it = r.choice([lambda: List([]), lambda: Range(Int(0), Int(0)), lambda: Str(""), lambda: Tuple([]),
                           lambda: Range(Int(2), Int(r.choice([2, 3])))])()
            node = For([sc.fresh("i")], it, Block([self.expr(sc, "num", 1)]))
        elif c < 0.82:
            node = While(Bool(False), Block([self.expr(sc, "num", 1)])) if r.random() < 0.5 else \
                Until(Bool(True), Block([self.expr(sc, "num", 1)]))
        elif c < 0.92:
            node = If([self.expr(sc, "bool", 1)], [Block([self.expr(sc, "num", 1)])])
        else:
            node = Switch([self.expr(sc, "bool", 1), self.expr(sc, "bool", 1)],
                          [Block([self.expr(sc, "num", 1)]), Block([self.expr(sc, "num", 1)])])
        return Block([pre, node])


# ---- bounded-exhaustive operator trees ----------------------------------------------------------------
LEAVES = [lambda: Int(0), lambda: Int(1), lambda: Int(-3), lambda: Int(7), lambda: Flt(1, 1), lambda: Flt(2, 0),
          lambda: Bool(True), lambda: Bool(False), lambda: Null(), lambda: Str(""), lambda: Str("a"),
          lambda: Str("ab")]
BINOPS = ARITH + CMPS + EQS + ["and", "or"]


def mk_bin(op, a, b):
    if op in ARITH:
        return Bin(op, a, b)
    if op in CMPS or op in EQS:
        return Cmp([op], [a, b])
    if op == "and":
        return And(a, b)
    return Or(a, b)


def exhaustive_depth1():
    """Every binary operator over every ordered pair of leaves, every unary operator over every leaf."""
    for op in BINOPS:
        for a in LEAVES:
            for b in LEAVES:
                reset_ids()
                yield Block([mk_bin(op, a(), b())])
    for a in LEAVES:
        reset_ids()
        yield Block([Neg(a())])
        reset_ids()
        yield Block([Not(a())])


NUM_LEAVES = [lambda: Int(2), lambda: Int(-3), lambda: Int(7), lambda: Flt(1, 1)]


def exhaustive_pairs():
    """Depth-3 trees of every pair of operators over numeric leaves: (a op1 b) op2 c and a op1 (b op2 c),
    rendered without redundant parentheses where precedence allows (the precedence matrix)."""
    ops = ARITH + CMPS + EQS
    for op1 in ops:
        for op2 in ops:
            for shape in (0, 1):
                for ls in itertools.product(range(len(NUM_LEAVES)), repeat=3):
                    if (ls[0] + ls[1] + ls[2]) % 3 != 0:
                        continue
                    reset_ids()
                    a, b, c = (NUM_LEAVES[i]() for i in ls)
                    if op1 in ARITH and op2 in ARITH or shape == 0 and op1 in ARITH or shape == 1 and op2 in ARITH:
                        try:
                            t = mk_bin(op2, mk_bin(op1, a, b), c) if shape == 0 else mk_bin(op1, a, mk_bin(op2, b, c))
                        except Exception:
                            continue
                        yield Block([t])


def reassign_matrix():
    """`x = S(x)` for a variable that is already assigned, for every shape S of expression that reads x: the old value
    is read, then the variable is assigned (x = y and x, x = {v: x}, x = 1 < x < 5, x = |q| x, ...)."""
    X = lambda: Id("x")
    shapes = [
        lambda: And(Id("y"), X()), lambda: Or(Id("n"), X()), lambda: And(X(), Id("y")), lambda: Or(X(), Id("y")),
        lambda: Map(["v"], [X()]), lambda: Map(["a", "b"], [Int(1), X()]), lambda: List([X(), Int(1)]), lambda: List([Int(1), X(), X()]),
        lambda: Tuple([X(), X()]), lambda: Cmp(["<", "<"], [Int(1), X(), Int(5)]), lambda: Cmp(["<", "<="], [Int(0), Id("y"), X()]),
        lambda: If([Cmp([">"], [X(), Int(0)])], [Block([Bin("+", X(), Int(10))])], Block([X()])),
        lambda: If([Id("t")], [Block([And(Id("y"), X())])], Block([Int(0)])),
        lambda: Range(X(), Bin("+", X(), Int(2))), lambda: IStr(["<", X(), "|", X(), ">"]) if False else Bin("+", X(), X()),
        lambda: Bin("-", If([Id("t")], [Block([Int(2)])], Block([Int(3)])), X()),
        lambda: Neg(X()), lambda: Not(And(X(), Id("y"))), lambda: Bin("*", And(Id("y"), X()), Int(2)),
        lambda: App(Fn([Param("q")], Block([Bin("+", Id("q"), X())])), [X()]),
        lambda: Match(X(), [Arm([PLit(Int(3))], Block([Tuple([Str("three"), X()])])), Arm([PId("k")], Block([Tuple([Id("k"), X()])]))]),
        lambda: Switch([Cmp(["=="], [X(), Int(3)]), Bool(True)], [Block([Bin("+", X(), Int(1))]), Block([X()])], Block([Int(0)])),
        # assignments used as values: the container is updated at the position the old value of x names
        lambda: IOpAsg(Id("l"), X(), "+", Int(10)), lambda: IAsg(Id("l"), X(), Bin("+", X(), Int(5))), lambda: DOpAsg(Id("mp"), "k", "+", X()),
        lambda: OpAsg("y", "+", X()), lambda: Idx(Idx(Id("ll"), X()), X()), lambda: IOpAsg(Idx(Id("ll"), X()), X(), "*", Int(2)),
        lambda: Idx(Id("l"), Range(X(), Bin("+", X(), Int(1)))),
    ]
    # ... and every shape again as the operand of a unary or binary operator directly under the assignment (the operator's
    # result goes to x; its operand must not be built in x's place while x is still being read)
    wrappers = [lambda s: s, lambda s: Not(s), lambda s: Neg(s), lambda s: Bin("+", s, Int(1)), lambda s: Bin("-", Int(1), s)]
    values = [lambda: Int(3), lambda: Int(0), lambda: Null(), lambda: List([Int(7)]), lambda: Int(1)]
    for si, sh in enumerate(shapes):
        for wi, w in enumerate(wrappers):
            for vi, v in enumerate(values):
                for twice in (False, True):
                    if wi > 0 and (twice and vi > 1 or sh()["k"] in ("match", "switch")):
                        continue
                    reset_ids()
                    xs = [Asg("x", v()), Asg("y", Int(5)), Asg("n", Null()), Asg("t", Bool(True)),
                          Asg("l", List([Int(10), Int(20), Int(30), Int(40)])), Asg("mp", Map(["k"], [Int(1)])),
                          Asg("ll", List([List([Int(1), Int(2)]), List([Int(3), Int(0)])])), Asg("x", w(sh()))]
                    if twice:
                        xs.append(Asg("x", w(sh())))
                    xs += [Core("print", [Tuple([Id("x"), Id("y"), Id("l"), Id("mp"), Id("ll")])]), Id("x")]
                    yield Block(xs)
