"""C08 — the execution limit stops runaway scripts.
Shapes of non-terminating evaluation x limits are run on a real instance (session harness): the result must be the
timeout error within the limit plus slack, no catch block may observe it, and the instance must stay usable.
Every run's hook trace is validated against KotoVm.tla: TimeoutNeverCaught, TimeoutStaysTimeout (a timeout raised
in a nested execution is never downgraded to an ordinary error), Balanced, QuiescentIsClean."""
import itertools, json, random
import common, vmtrace

PROP = "C08"

# the part of the script that never terminates, as a block (list of lines) -----------------------------------
SPIN = {
    "loop": ["loop", "  y = 1"],
    "while": ["while true", "  y = 1"],
    "until": ["until false", "  y = 1"],
    "for_gen": ["endless = ||", "  n = 0", "  loop", "    yield n", "    n += 1", "for v in endless()", "  y = v"],
    "recursion": ["rec = |n|", "  1 + rec(n + 1)", "rec 0"],
    "nested_loops": ["loop", "  for i in 0..10", "    y = i"],
}


def indent(lines, n):
    return [("  " * n) + l for l in lines]


def wrap(spin, where):
    """Place the spinning block inside a construct."""
    if where == "top":
        return spin
    if where == "function":
        return ["f = ||"] + indent(spin, 1) + ["f()"]
    if where == "method":
        return ["m =", "  go: ||"] + indent(spin, 2) + ["m.go()"]
    if where == "operator":
        return ["o =", "  @+: |rhs|"] + indent(spin, 2) + ["    1", "z = o + 1"]
    if where == "generator":
        return ["g = ||"] + indent(spin, 1) + ["  yield 1", "for v in g()", "  w = v"]
    if where == "functor":
        return ["fun = |v|"] + indent(spin, 1) + ["  v", "(1, 2).each(fun).to_tuple()"]
    if where == "fold":
        return ["fun = |a, v|"] + indent(spin, 1) + ["  a", "[1, 2].fold(0, fun)"]
    if where == "display":
        return ["o =", "  @display: ||"] + indent(spin, 2) + ["    'x'", "s = '{o}'"]
    raise ValueError(where)


def in_try(lines, depth):
    for k in range(depth):
        lines = ["try"] + indent(lines, 1) + ["catch e%d" % k, "  print 'CAUGHT%d'" % k, "finally", "  print 'FINALLY%d'" % k]
    return lines


def shapes():
    for spin, where, td in itertools.product(SPIN, ("top", "function", "method", "operator", "generator", "functor",
                                                    "fold", "display"), (0, 1, 2)):
        yield "%s/%s/try%d" % (spin, where, td), "\n".join(in_try(wrap(SPIN[spin], where), td)) + "\n"


def run(tier, seed):
    rep = common.Report(PROP, tier, "model_checking", seed)
    rng = random.Random(seed)
    quick = tier == "quick"
    allshapes = list(shapes())
    limits = [60] if quick else [20, 100, 400]
    cases = [(n, s, l) for (n, s) in allshapes for l in limits]
    if quick:
        rng.shuffle(cases)
        cases = cases[:48]
    jobs = [{"id": "%s@%d" % (n, l), "limit_ms": l, "hook_head": 1000, "hook_tail": 600,
             "ops": [{"op": "run", "src": "export probe = 20\n"}, {"op": "run", "src": s},
                     {"op": "run", "src": "probe + 22\n"}, {"op": "run", "src": "try\n  throw 'x'\ncatch e\n  'handled'\n"}]}
            for (n, s, l) in cases]
    # timing assertions: run with modest parallelism so that the machine is not oversubscribed
    results = common.kv_parallel("session", jobs, shards=4, per_job_timeout=30)
    traces = []
    for (n, src, l), job, r in zip(cases, jobs, results):
        why = None
        if r.get("status") != "done":
            why = "implementation %s (%s)" % (r.get("status"), (r.get("err_msg") or "")[:200])
        else:
            st = r["steps"]
            s1 = st[1]
            if s1["status"] != "err" or s1.get("err_class") != "timeout":
                why = "runaway script did not end with the timeout error: %s %s %s" % (s1["status"], s1.get("err_class"), (s1.get("err_msg") or s1.get("value") or "")[:120])
            elif "CAUGHT" in s1["stdout"]:
                why = "the timeout was observed by a catch block: %r" % s1["stdout"]
            elif s1["wall_ms"] > 2 * l + 1000:
                why = "timeout after %d ms with a limit of %d ms (slack 2*limit + 1s)" % (s1["wall_ms"], l)
            elif st[2]["status"] != "ok" or st[2]["value"] != "42":
                why = "instance not usable after the timeout: probe gave %s %s" % (st[2]["status"], st[2].get("value") or st[2].get("err_msg"))
            elif st[3]["status"] != "ok" or st[3]["value"] != "handled":
                why = "try/catch misbehaves after the timeout: %s" % (st[3].get("value") or st[3].get("err_msg"))
            elif any(s["state"][k] for s in st for k in ("d", "r", "b", "q", "t")):
                why = "idle runtime holds residue after the timeout: %s" % [s["state"] for s in st]
            evs = []
            for s in st:
                evs += s["events"]
                x = s["state"]
                evs.append({"e": "Observe", "vm": x["vm"], "d": x["d"], "r": x["r"], "b": x["b"], "q": x["q"], "t": x["t"],
                            "c": 0, "a": 0, "x": 0, "s": ""})
            traces.append({"id": job["id"], "events": evs, "_src": src})
        if why:
            rep.violation("shape_%s" % job["id"].replace("/", "_"), {"property": PROP, "why": why, "shape": n, "limit_ms": l,
                                                                       "source": src, "actual": None if r.get("status") != "done" else [
                    {k: s.get(k) for k in ("status", "value", "err_class", "stdout", "wall_ms", "state")} for s in r["steps"]]})
    # the limit is armed anew for every run: after a run that ended with an error (thrown, or the timeout itself), terminating
    # scripts that are long enough to reach the runtime's deadline polls are unaffected, and a runaway script still gets the full limit
    LONG = "n = 0\nfor i in 0..1500000\n  n += 1\nn\n"
    RL = 3000
    rearm = [("after_throw", ["throw 'oops'\n", LONG, "loop\n  y = 1\n", LONG]),
             ("after_timeout", ["loop\n  y = 1\n", LONG, "f = |n|\n  if n == 0\n    throw 'deep'\n  f(n - 1)\nf 5\n", LONG, LONG]),
             ("after_callback_error", ["(3, 1, 2).to_list().sort |x| throw 'key'\n", LONG, "[1, 2].each(|x| x.nope()).consume()\n", LONG])]
    rjobs = [{"id": "rearm_" + nm, "limit_ms": RL, "ops": [{"op": "run", "src": "export probe = 20\n"}] + [{"op": "run", "src": x} for x in srcs]} for nm, srcs in rearm]
    rres = common.kv_parallel("session", rjobs, shards=3, per_job_timeout=120)
    for (nm, srcs), job, r in zip(rearm, rjobs, rres):
        why = None
        if r.get("status") != "done":
            why = "implementation %s (%s)" % (r.get("status"), (r.get("err_msg") or "")[:200])
        else:
            for src, stp in zip(srcs, r["steps"][1:]):
                if src == LONG and (stp["status"] != "ok" or stp.get("value") != "1500000"):
                    why = "a terminating script (%d ms) was affected by the limit of %d ms after an earlier run ended with an error: %s %s" % (
                        stp["wall_ms"], RL, stp["status"], (stp.get("err_msg") or stp.get("value") or "")[:120])
                elif src.startswith("loop") and (stp.get("err_class") != "timeout" or not (RL * 0.9 <= stp["wall_ms"] <= 2 * RL + 1000)):
                    why = "a runaway script run after an error did not get the limit of %d ms: %s after %d ms" % (RL, stp.get("err_class") or stp["status"], stp["wall_ms"])
                if why:
                    break
        if why:
            rep.violation("rearm_" + nm, {"property": PROP, "why": why, "rearm": nm, "sources": srcs, "limit_ms": RL,
                                          "actual": None if r.get("status") != "done" else [{k: s0.get(k) for k in ("status", "value", "err_class", "wall_ms")} for s0 in r["steps"]]})
    verdicts, tst = vmtrace.validate([{"id": t["id"], "events": t["events"]} for t in traces], tag="c08")
    for t in traces:
        v = verdicts[t["id"]]
        if not v["ok"]:
            rep.violation("trace_%s" % t["id"].replace("/", "_"),
                          {"property": PROP, "why": "VM trace rejected by KotoVm.tla at event %d: %s" % (v["at"], v["why"]),
                           "source": t["_src"], "events_before": t["events"][max(0, v["at"] - 6): v["at"]]})
    nev = sum(len(t["events"]) for t in traces)
    # design level: the operational model of vm.rs against the same rules, the timeout bugs it must reject, and liveness
    import mc_kotovm
    mc = mc_kotovm.run(tier, bugs=("timeout_catch", "timeout_text", "stale_deadline"), liveness=True)
    if "design_rejected" in mc or "liveness_violated" in mc:
        rep.violation("design_model", {"property": PROP, "why": "MC_KotoVm.tla: %s" % (mc.get("design_rejected") or "TimeoutEventuallyFires violated"), "tlc": mc.get("tlc")})
    rep.coverage = {
        "states": max(1, tst["states"]) + mc.get("states", 0), "transitions": max(1, tst["transitions"]) + mc.get("states", 0),
        "design_model": {k: v for k, v in mc.items() if k != "tlc"},
        "traces_validated_against_impl": len(traces),
        "samples": [{"shape": cases[0][0], "limit_ms": cases[0][2], "source": cases[0][1]}],
        "evaluations": len(cases), "distinct_nontrivial": len(cases),
        "rule": "shape = spinning construct {loop, while, until, for over an endless generator, unbounded recursion, nested "
                "loops} x position {top level, function, method, overloaded operator, generator body consumed by for, "
                "functor of each / fold, @display} x enclosing try/catch/finally depth 0..2 (%d shapes) x limits %s ms; "
                "quick samples 48; 3 sessions in which terminating scripts of 1.5M iterations and runaway scripts follow runs that ended with an error (limit 3000 ms)" % (len(allshapes), limits),
        "hook_events_validated": nev, "shapes_total": len(allshapes), "exhaustive": not quick,
    }
    rep.assumptions = ["real time is outside TLA+: the bound 2*limit + 1 s is a harness assertion",
                       "loops spinning inside a native library function are excluded, as documented",
                       "terminating scripts under a limit are covered by the C01-C04 replays, which all run with a limit"]
    return rep.finish()


def replay(path):
    d = json.load(open(path))
    if "rearm" in d:
        r = common.kv("session", [{"id": "replay", "limit_ms": d["limit_ms"], "ops": [{"op": "run", "src": "export probe = 20\n"}] + [{"op": "run", "src": x} for x in d["sources"]]}], per_job_timeout=120)[0]
        bad = r.get("status") != "done" or any(x.startswith("n = 0") and stp["status"] != "ok" for x, stp in zip(d["sources"], r["steps"][1:]))
        print(d["why"]); print([(stp["status"], stp.get("err_class"), stp["wall_ms"]) for stp in r.get("steps", [])])
        if bad:
            print("VIOLATION property=%s replay=%s" % (PROP, path)); return 1
        return 0
    l = d.get("limit_ms", 60)
    r = common.kv("session", [{"id": "replay", "limit_ms": l, "ops": [{"op": "run", "src": d["source"]}, {"op": "run", "src": "1 + 1\n"}]}])[0]
    s = r["steps"][0]
    print(d["source"]); print({k: s.get(k) for k in ("status", "err_class", "stdout", "wall_ms")})
    if s["status"] != "err" or s.get("err_class") != "timeout" or "CAUGHT" in s["stdout"]:
        print("VIOLATION property=%s replay=%s" % (PROP, path)); return 1
    return 0
