#!/usr/bin/env python3
"""Regenerates /verif/MANIFEST.json from the table below (single source of truth for the interface)."""
import json, os
ROOT = os.path.dirname(os.path.dirname(os.path.abspath(__file__)))

BASELINE_OFF = ("cd /repo && cargo nextest run --workspace --no-fail-fast --test-threads 8 --offline "
                "|| cargo test --workspace --no-fail-fast --offline")

CHECKS = {
    "C01": dict(
        category="model_checking",
        text="The source language is specified as an explicit abstract machine in TLA+ (spec/KotoCore.tla, one "
             "transition rule per construct, encoding docs/language_guide.md). TLC executes the machine on every "
             "program of a bounded-exhaustive family (all operator applications over a leaf pool, the operator-pair "
             "precedence matrix) and on seeded random statement programs, and the predicted stdout/result/error is "
             "replayed into the real compiler+VM in several syntactic contexts (top level, function body with 0/3/40 "
             "extra locals) and layouts. Assurance: every explored program behaves as the specification says; "
             "bounded, not a proof.",
        design_ref="DESIGN.md §5 C01, Appendix B",
        note="Trusted: TLC, the KotoCore specification as the statement of the guide, the renderer (kast.py). Integers "
             "inside +-10^6 and exact dyadic floats only; programs the guide leaves open are discarded and counted.",
        technique="TLA+ abstract machine executed by TLC as oracle; spec->implementation replay",
        engine="kotocore"),
}

def _core(prop, what, design, fam):
    return dict(
        category="model_checking",
        text="Decided by the KotoCore abstract machine (spec/KotoCore.tla, explicit TLA+ transition rules encoding "
             "docs/language_guide.md) executed by TLC on " + what + "; each predicted observation (stdout, result value "
             "and type, error class and thrown message) is replayed into the real compiler+VM in several contexts and "
             "layouts. Bounded exploration with an implementation-independent oracle, not a proof.",
        design_ref=design,
        note="Trusted: TLC, the specification as the statement of the guide, kast.py renderer. Integers inside +-10^6, "
             "exact dyadic floats; programs the guide leaves open are discarded and counted. " + fam,
        technique="TLA+ abstract machine executed by TLC as oracle; spec->implementation replay",
        engine="kotocore")


CHECKS["C02"] = _core("C02", "the argument-binding matrix (parameter kinds x argument counts x call forms), the matrix of "
                      "calls with unpacked arguments (every sequence of 1..3 plain / unpacked arguments against variadic, default+rest "
                      "and generator callees), closure templates (incl. functions re-made by every loop iteration), random programs with nested function definitions/calls and generator programs",
                      "DESIGN.md §5 C02", "")
CHECKS["C03"] = _core("C03", "the subject x pattern x arm-position x guard matrix (result variable fresh or already assigned), "
                      "random matches with alternatives, every container pattern as a function argument pattern x every subject, "
                      "and the complete unpacking matrix", "DESIGN.md §5 C03", "")
CHECKS["C04"] = _core("C04", "seeded programs with try/catch/finally nests and fault sites planted at every position class "
                      "(call depth, functors, generators, interpolation, literals, handlers)", "DESIGN.md §5 C04",
                      "Known finding F28 (finally skipped on abrupt exits) is modelled as a named deviation rule and "
                      "its pinned inputs are reported as KNOWN-FINDING.")

CHECKS["C04"]["text"] += (" In addition the hook traces of these executions are validated against the VM specification "
                          "spec/KotoVm.tla (CaughtIsInnermost, CaughtWithinTry, NoDuplicateTry, BuildersRestoredAtCatch, "
                          "NoMonotoneGrowth, Balanced, QuiescentIsClean, NoInternalFault evaluated at every event). "
                          "Design level: MC_KotoVm.tla, an operational model of vm.rs that produces events in the order the hooks "
                          "emit them, is model-checked against the same rules (accepted in every reachable state); with each "
                          "historical bug switched on (stale catch point, builders not restored, register leak, register growth) "
                          "TLC must reject it by the rule that names it.")
CHECKS["C04"]["technique"] = "TLA+ abstract machine as oracle (spec->impl replay) + trace validation of VM hook events against KotoVm.tla + TLC model checking of MC_KotoVm.tla"

CHECKS["C05"] = dict(
    category="model_checking",
    text="ChunkCfg.tla is an abstract interpreter over REAL compiled chunks (decoded with the public InstructionReader): TLC "
         "explores every path of every function's control-flow graph, including the exceptional edges from each instruction "
         "inside a try block to its catch point, with state (ip, sequence/string builder depths, catch-point stack). "
         "Invariants: OnBoundary (every reached ip starts an instruction inside its own function; falling off the end is a "
         "violation), OperandsInRange (registers < NewFrame count, constants exist with the right kind, jump targets on "
         "boundaries), NoBrokenBuilder, BalancedAtReturn, FrameFirst, and same stack shape at every join. Inputs: the corpus, "
         "seeded programs of all KotoCore families, size-scaled programs around every encoding limit (must be rejected by "
         "the compiler or run to the known result), thorough: the corpus' token neighbourhood. Determinism: every text is "
         "compiled twice (other process, other order) and must hash equal. Run time: corpus executions are validated against "
         "KotoVm.tla (NoInternalFault).",
    design_ref="DESIGN.md §5 C05",
    note="Trusted: InstructionReader as the definition of the format; may-throw is over-approximated. Known findings RL1 "
         "(register limit reported at run time) and RB1 (a return inside a string placeholder leaves the builder open in the "
         "compiled code; harmless at run time since fix 52f5893) are pinned. Also covered: a byte-exact sweep across the 16-bit jump "
         "distance and a matrix of discarded / used interpolated strings x 31 placeholder kinds.",
    technique="TLC exploration of the control-flow graph of real compiled chunks (ChunkCfg.tla) + scale sweep + double compilation",
    engine="chunkcfg")
CHECKS["C06"] = dict(
    category="exploration",
    text="The outcome alphabet of compiling, formatting, rendering an error, running and displaying is {value, error}; there is no "
         "Panic outcome (LexGen.tla, CoreCalls.tla). TLC generates the input spaces: LexGen.tla is the lexer's push-down mode "
         "automaton as a generator (code, quoted literal, template expression, format options, raw string, nested comment, inline "
         "map, parentheses): every path of at most Depth fragments from 11 start contexts, each text cut off inside whatever is open "
         "and closed again, pushed through lex, parse, compile + error rendering, format (default and narrow options) and run; "
         "CoreCalls.tla enumerates, for every callable entry of the prelude dumped from the runtime under test, every argument tuple "
         "up to the arity bound over a pool of 41 boundary values (extreme integers and ranges, used-up iterators of three kinds), a name used twice denoting the same object (receiver passed as "
         "its own argument, callbacks that mutate the receiver); result or error is displayed. VmOps.tla covers what the VM does "
         "itself with a value (unpacking in assignments, arguments and match arms with ellipses, for loops, indexing, operators, "
         "interpolation, calls, type hints, throw/catch: 170 templates) over the pool plus 22 hostile objects whose meta functions "
         "lie about the size, fail, return the wrong type or change the container being taken apart. Every other check also treats a "
         "panic of the code under test as a violation of its replay.",
    design_ref="DESIGN.md §5 C06",
    note="Allocation failures and capacity overflows are outside the property (calls run under an address-space limit); io.* file "
         "functions, os.command and koto.exit are not called; not a substitute for coverage-guided fuzzing of arbitrary bytes.",
    technique="TLC-generated input spaces (lexer mode automaton paths, core-library call tuples) run through the front end and the runtime",
    engine="lexgen")
CHECKS["C07"] = dict(
    category="model_checking",
    text="Session.tla specifies one embedding instance as a state machine over its completed effects; TLC enumerates every "
         "history of 3 (quick) / 4 (thorough) operations over a 27-operation library (succeeding and failing scripts with "
         "the fault at every depth class, host-initiated calls, displays, timeouts) and predicts each step. The histories "
         "are replayed on a real koto::Koto instance; after every step the exported state and the VM's residue are "
         "observed, and the hook events are validated against KotoVm.tla (Balanced at every activation exit on Ok and Err, "
         "QuiescentIsClean whenever the host regains control).",
    design_ref="DESIGN.md §5 C07, Appendix A",
    note="Trusted: the hand transcription of the script library's effects into Session.tla; hooks placement (self-tested). "
         "Histories of bounded length over a fixed library.",
    technique="TLC-enumerated histories replayed on the implementation + trace validation against KotoVm.tla",
    engine="session")
CHECKS["C08"] = dict(
    category="model_checking",
    text="Every non-terminating shape (6 spinning constructs x 8 positions incl. overloaded operator, generator body, "
         "adaptor functor, @display x try depth 0..2) is run under a limit on a real instance: timeout error within "
         "2*limit+1s, no catch block observes it, the instance stays usable and clean. Each run's hook trace is validated "
         "against KotoVm.tla: TimeoutNeverCaught and TimeoutStaysTimeout (a timeout from a nested execution is never "
         "downgraded), Balanced, QuiescentIsClean. Design level: MC_KotoVm.tla (operational model of vm.rs against the same "
         "rules) is model-checked; the variants in which a nested timeout can be caught or comes back as an ordinary error must be "
         "rejected, and the liveness property TimeoutEventuallyFires holds under weak fairness of the clock and the deadline "
         "poll, and is violated in the variant where nested executions do not poll the deadline. Terminating scripts are unaffected: "
         "the invariant RearmedPerRun (the clock a run's deadline polls read is the time this run has used) holds and rejects the "
         "variant in which a failed run's deadline stays armed; three sessions run long terminating scripts and a runaway script "
         "after runs that ended with an error.",
    design_ref="DESIGN.md §5 C08, Appendix A",
    note="Real time is outside TLA+ (harness assertion with slack); long executions are recorded as head+tail with a Gap "
         "event, for which the specification abstains on what it cannot know.",
    technique="enumerated runaway shapes on the implementation + trace validation against KotoVm.tla + TLC model checking (safety and liveness) of MC_KotoVm.tla",
    engine="kotovm")
CHECKS["C10"] = dict(
    category="model_checking",
    text="Blocks.tla models block-structured text typed line by line (open-construct stack, header/continuation lines); "
         "TLC enumerates every reachable typed prefix within MaxLines/MaxDepth and predicts NeedsMore / Complete; each "
         "prefix is rendered and compiled (indentation error iff NeedsMore; complete programs compile). Meaning under "
         "layout: KotoCore programs of all families are rendered under many layout vectors (inline/block forms, paren-free "
         "and piped calls, minimal/redundant parentheses, comments, blank lines, trailing whitespace) and must all yield "
         "the machine's single prediction; decorated variants must parse to the identical syntax tree.",
    design_ref="DESIGN.md §5 C10",
    note="Only freedoms the guide documents are used; the REPL is represented by compile + is_indentation_error.",
    technique="TLC enumeration of typed prefixes (Blocks.tla) + layout-variant replay against the KotoCore oracle",
    engine="blocks")
CHECKS["C11"] = dict(
    category="exploration",
    text="Format.tla states the formatter as a stuttering step on the abstract state (canonical syntax tree, comment sequence) that "
         "is idempotent on text; every explored (text, options) pair is recorded as the trace Original -> Format -> Format and "
         "validated against it by TLC. Inputs: the corpus (tests, docs, examples), generated programs of every KotoCore family in "
         "randomised layouts with comments (a share with non-ASCII identifiers and string contents), the string-format-option grid, "
         "the block-position shapes of FmtShapes.tla (every block-introducing construct x every expression form as the block's only "
         "expression x comment decorations; and every form of expression in every expression position: 62 contexts x 77 expressions, "
         "with and without a trailing comment), "
         "in the thorough tier the token neighbourhood of the corpus; options from the 72-point grid. The formatted text of "
         "generated programs is also run and compared with the KotoCore prediction (or with a run of the text as given). Decided on "
         "the domain where nothing needs breaking (reference layout with line_length 255 fits, no chain broken, no shape of known "
         "finding WS); outside it only totality (no panic, no error).",
    design_ref="DESIGN.md §5 C11",
    note="Known findings LB (the line breaker: pinned inputs) and WS (parser leniencies the formatter renders ambiguously); seven "
         "formatter defects were repaired with fix: commits.",
    technique="trace validation of format runs against Format.tla with TLC + replay of formatted programs against the KotoCore oracle",
    engine="format")
CHECKS["C12"] = _core("C12", "programs with one fault planted under 0..4 nested calls after line-shifting constructs; the "
                      "machine reports the failing node and the call-site nodes, which are mapped to source lines and "
                      "compared with the error's trace and with the lines quoted in the rendered message; every excerpt of every rendered "
                      "message is checked for its layout (gutter bars in one column, carets under the column the header names); the "
                      "debug clause: texts stacking 20 contexts of `debug <marker>` (statement, assigned value, value on the line after "
                      "`=`, inside brackets, operands on continuation lines, blocks) report every marker once with its own line",
                      "DESIGN.md §5 C12", "Compile-error positions are checked in C10's block-prefix part.")

CHECKS["C09"] = dict(
    category="model_checking",
    text="Lexer.tla is an accounting machine over the token stream: it advances a ledger (offset, line, column, code-line flag, "
         "string depth) by the TEXT of each token (facts computed by the harness from the input) and checks the lexer's own "
         "report against it: Contiguous, CharBoundaries, LinesAreNewlineCounts, ColumnZeroAfterBreak, column continuity, "
         "IndentIsLeadingWhitespace (code lines), ModeDiscipline, Lossless, Termination. Inputs: every string of length <= 3 "
         "(quick) / 4 (thorough) over a 23-symbol alphabet chosen to reach every lexer mode, random long strings, strings of "
         "mode-reaching fragments, the corpus.",
    design_ref="DESIGN.md §5 C09",
    note="Exhaustive within the length bound and alphabet. Column units are not fixed by the property and are not compared.",
    technique="trace validation of real token streams against an explicit TLA+ accounting machine; bounded-exhaustive inputs",
    engine="lexer")
CHECKS["C13"] = dict(
    category="model_checking",
    text="Iter.tla gives every adaptor two readings: the mathematical definition on a finite sequence, and a small state "
         "machine with a private cursor pulling from the level below (the source logs every pull). TLC checks for every "
         "well-formed pipeline in scope (25 adaptor instances, depth <= 2 quick / 3 thorough, source length 0..4/5) that the "
         "machines produce exactly the defined sequence, stay exhausted, and pull each source element once in order. The "
         "predictions are replayed: 9 stepwise next() calls over pull-logging generators (outputs exact; pulls of the source "
         "and of second inputs bounded by the machines; none before consumption), 15 consumers over list/tuple/range sources "
         "computed from the defined sequence, and copy independence.",
    design_ref="DESIGN.md §5 C13",
    note="Pull counts are an upper bound only (read-ahead of step/chunks/windows is not documented); copy independence for "
         "built-in sources only.",
    technique="TLC model checking of adaptor state machines against definitions (Iter.tla) + spec->implementation replay",
    engine="iter")
CHECKS["C14"] = _core("C14", "every / sampled sequence of 2, 3 and 6 container actions over a 100-action alphabet on three aliasable "
                      "variables (whole visible state printed after each action), the derivation matrix (alias, copy, deep_copy, + with an "
                      "empty operand on either side, full slices, round trips x mutations through either name) and the equality / ordering / map-key / sort / "
                      "map-order law families; additionally TLC model-checks the machine itself as a transition system "
                      "(MC_KotoCore.tla: OneEntryPerKey, NoDangling in every configuration, MapKeepsInsertionOrder and "
                      "StoreOnlyGrows on every step)", "DESIGN.md §5 C14",
                      "The machine's store is the abstract heap (DESIGN's Heap.tla is realised as KotoCore's store plus MC_KotoCore).")
CHECKS["C15"] = dict(
    category="model_checking",
    text="Strings.tla defines strings as code point sequences with their UTF-8 bytes and grapheme clusters, and on them every "
         "documented string operation (byte indexing and slicing, chars, char_indices, bytes, size, lines, split by pattern and by "
         "function, replace, contains/starts_with/ends_with, strip_prefix/suffix, trim variants, case mapping, repeat, to_number, "
         "format options for strings and integers, escape codes). TLC enumerates every string over mixed-width alphabets up to the "
         "length bound with every argument from before to beyond the bounds, checks the property's laws on the definitions "
         "(chars re-join, split re-joins with the pattern, char_indices slice to the clusters, field width), and prints one "
         "prediction per case; each case is run on the runtime with the subject string built as a literal, from escapes, as a "
         "slice of a larger buffer and as a slice of a buffer beyond 64 KiB, and compared byte for byte; every returned string "
         "must be valid UTF-8; a panic is attributed to its case by bisection.",
    design_ref="DESIGN.md §5 C15",
    note="Not decided (valid text or an error required): slices reaching outside the string, radix "
         "or zero padding of negative numbers, to_number on texts the documentation does not classify, float values. TLC found that "
         "the width law cannot hold for values starting with a combining mark (it merges with the fill).",
    technique="TLC-enumerated cases with predictions from Strings.tla (laws asserted on the definitions) replayed into the runtime",
    engine="strings")
CHECKS["C16"] = _core("C16", "7 hint positions x 21 hint names x 19 values (objects with @type/@base chains included), each predicted and "
                      "run with enable_type_checks on and off (the machine has a `checks` switch: hints on let/for/argument/return/"
                      "yield are skipped when off, match and catch patterns keep selecting), plus ordinary programs compiled with "
                      "checks off (HintsOffEquiv)", "DESIGN.md §5 C16", "")
CHECKS["C17"] = _core("C17", "the operator/protocol dispatch matrix on objects: arithmetic (left @op, right @r op fallback, "
                      "koto.unimplemented, compound @op=), comparisons (every subset of the six comparison metakeys, derived "
                      "!=, <=, >, >=), protocols (@negate, @size, @index, @index_assign, @call, @display, @type, @access, "
                      "@access_assign, @iterator, @next), the lookup chain own data -> @meta -> @base, own vs with_meta-shared "
                      "metamaps; every metakey function prints which function ran with which operands", "DESIGN.md §5 C17",
                      "Host objects defined through the Rust object interface are not covered.")
CHECKS["C18"] = dict(
    category="model_checking",
    text="Modules.tla specifies import/export/caching as a state machine (cache absent/in-progress/loaded, exports, log). TLC "
         "enumerates 96 000 module graphs on three modules (every ordered dependency list incl. cycles and self-imports x "
         "failure placement in body/@test/@main x mixes of import form, file/dir/both, guards, run_import_tests, host root "
         "lists with re-import and a second run on the same runtime), checks RunOnce, OrderTopTestsMain, FailedAbsent and "
         "NothingInProgressAtEnd on the model for each, and a sample is materialised on disk and replayed: the printed log must "
         "equal the model's and the host's exports must be restored. export_top_level_ids is checked against the KotoCore "
         "machine's final top-level environment.",
    design_ref="DESIGN.md §5 C18",
    note="Module bodies come from one template; repeated imports are issued from separate function scopes/runs (duplicate "
         "`import m` in one scope is unspecified).",
    technique="TLC-enumerated module graphs (Modules.tla) materialised and replayed; KotoCore oracle for export_top_level_ids",
    engine="modules")

CHECKS["C19"] = dict(
    category="model_checking",
    text="Shared.tla transcribes the lock steps of the list operations (core_lib/list.rs: which lock, what is checked and changed "
         "under it) and TLC checks, for every pair/triple of scripts and every interleaving, NoPanic, Linearizable (SharedOps!Explains: "
         "the observations and final contents are explained by a one-at-a-time order), LocksAreSound and deadlock freedom for "
         "single-container operations (push, pop, clear, get, size, insert, remove, remove by value, sort, fill); the models of the code as it "
         "was or as seeded changes made it (two-step insert/remove, two-step remove by value, sort/fill prepared under the read lock "
         "and stored under the write lock) must be rejected. Conformance on the "
         "arc build with real threads (kv threads): small rounds of 2-4 runtimes x 2-4 list operations are validated by TLC against "
         "the same Explains operator (Trace_Shared.tla); soak rounds of racing operation pairs on a shared list or map check no "
         "panic, no hang, exact counts (no lost update) and that readers never see a partially applied multi-element update. "
         "rc == arc: programs of the KotoCore families are run on both builds against one prediction.",
    design_ref="DESIGN.md §5 C19",
    note="Atomicity is claimed for operations on one container without callbacks; the model shows swap(a, b) against swap(b, a) can "
         "deadlock (two containers: outside the property). Real threads cannot be scheduled; narrow races are reached by the model "
         "and the soak rounds.",
    technique="TLC model checking of lock-step programs (Shared.tla) + TLC validation of rounds recorded from real threads (Trace_Shared.tla) + rc/arc replay diff",
    engine="shared")

NOT_APPLICABLE = {
    "C20": "Codec fidelity of JSON/YAML/TOML text and two serde visitors: no state machine, and the value domain that "
           "matters (string escapes, full i64 range, float text) is outside what TLC can represent; a TLA+ model would "
           "be a round-trip fuzzer in disguise (DESIGN.md §5 C20).",
}
NOT_BUILT = {}


def main():
    props = [json.loads(l)["id"] for l in open(os.path.join(ROOT, "properties.jsonl"))]
    checks = []
    for pid in props:
        if pid not in CHECKS:
            continue
        c = CHECKS[pid]
        checks.append({
            "property_id": pid,
            "quick_cmd": "./check %s --tier quick" % pid,
            "thorough_cmd": "./check %s --tier thorough" % pid,
            "evidence_file": "/verif/evidence/%s.json" % pid,
            "replay_cmd_template": "./check %s --replay {path}" % pid,
            "engine": c["engine"],
            "level_claimed": {"category": c["category"], "text": c["text"], "design_ref": c["design_ref"]},
            "level_note": c["note"],
            "technique": c["technique"],
        })
    na = []
    for pid in props:
        if pid in CHECKS:
            continue
        if pid in NOT_APPLICABLE:
            na.append({"property_id": pid, "reason": NOT_APPLICABLE[pid]})
        else:
            na.append({"property_id": pid, "reason": NOT_BUILT.get(pid, "not built yet: no check is registered for this property in this revision")})
    m = {
        "version": 1,
        "setup_cmd": "./setup.sh",
        "hooks": {
            "guard": "--cfg koto_verif",
            "enable": "rustflags in /verif/harness/.cargo/config.toml (--cfg koto_verif); the harness has path dependencies on /repo/crates/*",
            "baseline_off_cmd": BASELINE_OFF,
            "source_commits": ["28a8c73", "2bba42f", "2da0a96", "0e433f6"],
            "add_only": True,
        },
        "engines": [
            {"name": "chunkcfg", "path": "spec/ChunkCfg.tla", "serves_properties": ["C05"],
             "kind_free_text": "TLA+ abstract interpreter whose input is real decoded bytecode; TLC explores every path"},
            {"name": "lexer", "path": "spec/Lexer.tla", "serves_properties": ["C09"],
             "kind_free_text": "TLA+ ledger machine folded over real token streams"},
            {"name": "iter", "path": "spec/Iter.tla", "serves_properties": ["C13"],
             "kind_free_text": "TLA+ adaptor state machines checked against sequence definitions; predictions replayed"},
            {"name": "modules", "path": "spec/Modules.tla", "serves_properties": ["C18"],
             "kind_free_text": "TLA+ state machine of the module cache; TLC enumerates module graphs and predicts the log of two host runs"},
            {"name": "kotovm", "path": "spec/KotoVm.tla", "serves_properties": ["C04", "C07", "C08"],
             "kind_free_text": "TLA+ specification of the VM's control state; hook events of real executions are folded through its actions (Trace_KotoVm.tla)"},
            {"name": "session", "path": "spec/Session.tla", "serves_properties": ["C07"],
             "kind_free_text": "TLA+ state machine of one embedding instance; TLC enumerates operation histories that are replayed on koto::Koto"},
            {"name": "lexgen", "path": "spec/LexGen.tla", "serves_properties": ["C06"],
             "kind_free_text": "TLA+ generator: the lexer's mode automaton, TLC enumerates its paths as input texts; CoreCalls.tla enumerates core-library call tuples; VmOps.tla enumerates VM operations over boundary values and hostile objects"},
            {"name": "shared", "path": "spec/Shared.tla", "serves_properties": ["C19"],
             "kind_free_text": "TLA+ model of lock-step programs of shared-container operations; SharedOps!Explains also validates rounds recorded from real threads"},
            {"name": "strings", "path": "spec/Strings.tla", "serves_properties": ["C15"],
             "kind_free_text": "TLA+ definitions of string operations on code points, UTF-8 bytes and grapheme clusters; TLC enumerates cases and predicts results"},
            {"name": "format", "path": "spec/Format.tla", "serves_properties": ["C11"],
             "kind_free_text": "TLA+ statement of Format as a stuttering, idempotent step; recorded format runs are validated against it"},
            {"name": "blocks", "path": "spec/Blocks.tla", "serves_properties": ["C10"],
             "kind_free_text": "TLA+ model of block-structured text typed line by line; TLC enumerates typed prefixes"},
            {"name": "kotocore", "path": "spec/KotoCore.tla", "serves_properties": ["C01", "C02", "C03", "C04", "C10", "C11", "C12", "C14", "C16", "C17", "C18", "C19"],
             "kind_free_text": "TLA+ abstract machine of the Koto language executed by TLC; predictions replayed into the implementation by harness/kv"},
        ],
        "checks": checks,
        "not_applicable": na,
        "notes": "See DESIGN.md. Exit codes of ./check: 0 pass, 1 violation (VIOLATION line + replay file), 2 tool error.",
    }
    json.dump(m, open(os.path.join(ROOT, "MANIFEST.json"), "w"), indent=1)
    print("wrote MANIFEST.json with %d checks, %d not_applicable" % (len(checks), len(na)))


if __name__ == "__main__":
    main()
