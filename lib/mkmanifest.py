#!/usr/bin/env python3
"""Regenerates /verif/MANIFEST.json from the table below (single source of truth for the interface)."""
import json, os
ROOT = os.path.dirname(os.path.dirname(os.path.abspath(__file__)))

BASELINE_OFF = ("cd /repo && cargo nextest run --workspace --no-fail-fast --test-threads 8 --offline "
                "|| cargo test --workspace --no-fail-fast --offline")

CHECKS = {
    "C01": dict(
        category="model_checking",
        text="The source language is specified as an explicit abstract machine in TLA+ (spec/KotoCore.tla, one "
             "transition rule per construct, encoding docs/language_guide.md). TLC executes the machine on every "
             "program of a bounded-exhaustive family (all operator applications over a leaf pool, the operator-pair "
             "precedence matrix) and on seeded random statement programs, and the predicted stdout/result/error is "
             "replayed into the real compiler+VM in several syntactic contexts (top level, function body with 0/3/40 "
             "extra locals) and layouts. Assurance: every explored program behaves as the specification says; "
             "bounded, not a proof.",
        design_ref="DESIGN.md §5 C01, Appendix B",
        note="Trusted: TLC, the KotoCore specification as the statement of the guide, the renderer (kast.py). Integers "
             "inside +-10^6 and exact dyadic floats only; programs the guide leaves open are discarded and counted.",
        technique="TLA+ abstract machine executed by TLC as oracle; spec->implementation replay",
        engine="kotocore"),
}

def _core(prop, what, design, fam):
    return dict(
        category="model_checking",
        text="Decided by the KotoCore abstract machine (spec/KotoCore.tla, explicit TLA+ transition rules encoding "
             "docs/language_guide.md) executed by TLC on " + what + "; each predicted observation (stdout, result value "
             "and type, error class and thrown message) is replayed into the real compiler+VM in several contexts and "
             "layouts. Bounded exploration with an implementation-independent oracle, not a proof.",
        design_ref=design,
        note="Trusted: TLC, the specification as the statement of the guide, kast.py renderer. Integers inside +-10^6, "
             "exact dyadic floats; programs the guide leaves open are discarded and counted. " + fam,
        technique="TLA+ abstract machine executed by TLC as oracle; spec->implementation replay",
        engine="kotocore")


CHECKS["C02"] = _core("C02", "the argument-binding matrix (parameter kinds x argument counts x call forms), closure "
                      "templates, random programs with nested function definitions/calls and generator programs",
                      "DESIGN.md §5 C02", "")
CHECKS["C03"] = _core("C03", "the subject x pattern x arm-position x guard matrix, random matches with alternatives, "
                      "and the complete unpacking matrix", "DESIGN.md §5 C03", "")
CHECKS["C04"] = _core("C04", "seeded programs with try/catch/finally nests and fault sites planted at every position class "
                      "(call depth, functors, generators, interpolation, literals, handlers)", "DESIGN.md §5 C04",
                      "Known finding F28 (finally skipped on abrupt exits) is modelled as a named deviation rule and "
                      "its pinned inputs are reported as KNOWN-FINDING.")

NOT_APPLICABLE = {
    "C20": "Codec fidelity of JSON/YAML/TOML text and two serde visitors: no state machine, and the value domain that "
           "matters (string escapes, full i64 range, float text) is outside what TLC can represent; a TLA+ model would "
           "be a round-trip fuzzer in disguise (DESIGN.md §5 C20).",
}
NOT_BUILT = {}


def main():
    props = [json.loads(l)["id"] for l in open(os.path.join(ROOT, "properties.jsonl"))]
    checks = []
    for pid in props:
        if pid not in CHECKS:
            continue
        c = CHECKS[pid]
        checks.append({
            "property_id": pid,
            "quick_cmd": "./check %s --tier quick" % pid,
            "thorough_cmd": "./check %s --tier thorough" % pid,
            "evidence_file": "/verif/evidence/%s.json" % pid,
            "replay_cmd_template": "./check %s --replay {path}" % pid,
            "engine": c["engine"],
            "level_claimed": {"category": c["category"], "text": c["text"], "design_ref": c["design_ref"]},
            "level_note": c["note"],
            "technique": c["technique"],
        })
    na = []
    for pid in props:
        if pid in CHECKS:
            continue
        if pid in NOT_APPLICABLE:
            na.append({"property_id": pid, "reason": NOT_APPLICABLE[pid]})
        else:
            na.append({"property_id": pid, "reason": NOT_BUILT.get(pid, "not built yet: no check is registered for this property in this revision")})
    m = {
        "version": 1,
        "setup_cmd": "./setup.sh",
        "hooks": {
            "guard": "--cfg koto_verif",
            "enable": "rustflags in /verif/harness/.cargo/config.toml (--cfg koto_verif); the harness has path dependencies on /repo/crates/*",
            "baseline_off_cmd": BASELINE_OFF,
            "source_commits": [],
            "add_only": True,
        },
        "engines": [
            {"name": "kotocore", "path": "spec/KotoCore.tla", "serves_properties": ["C01", "C02", "C03", "C04"],
             "kind_free_text": "TLA+ abstract machine of the Koto language executed by TLC; predictions replayed into the implementation by harness/kv"},
        ],
        "checks": checks,
        "not_applicable": na,
        "notes": "See DESIGN.md. Exit codes of ./check: 0 pass, 1 violation (VIOLATION line + replay file), 2 tool error.",
    }
    json.dump(m, open(os.path.join(ROOT, "MANIFEST.json"), "w"), indent=1)
    print("wrote MANIFEST.json with %d checks, %d not_applicable" % (len(checks), len(na)))


if __name__ == "__main__":
    main()
