"""C15 — strings: Strings.tla defines every documented string operation on code points, UTF-8 bytes and grapheme clusters; TLC
enumerates all strings over mixed-width alphabets up to a length bound with all arguments in and just beyond bounds, checks the
property's laws on the definitions, and prints one prediction per case.  The cases are run on the real runtime (batched scripts;
each string built as a literal, from escapes, by concatenation at run time, as a slice of a larger buffer, and as a slice of a buffer beyond 64 KiB) and the
results compared byte for byte; every string that comes back is checked to be valid UTF-8."""
import json, os, random
import common

PROP = "C15"

PRELUDE = """H = |x| x.bytes().fold '', |a, b| '{a}.{b}'
enc = |v|
  match type v
    'String' then 'S' + H(v)
    'Null' then 'N'
    'Bool' then 'B{v}'
    'Number' then 'I{v}'
    'Range' then 'R{v.start()}:{v.end()}'
    'Tuple' then 'T' + v.fold('', |a, x| a + enc(x) + '|')
    else 'O' + type(v)
again = |it|
  it.to_tuple()
  it.to_list().to_tuple()
iter_all = |s|
  acc = []
  for c in s
    acc.push c
  acc.to_tuple()
BIG = 'z'.repeat 70000
t = |n, f|
  r = try
    enc f()
  catch e
    'ERR'
  print '{n} {r}'
"""


def utf8(cps):
    return b"".join(chr(c).encode("utf-8") for c in cps)


def lit(cps, quote="'"):
    """A single-quoted literal with the characters written directly (escapes only where the syntax needs them)."""
    out = []
    for c in cps:
        ch = chr(c)
        if ch == "\n":
            out.append("\\n")
        elif ch == "\r":
            out.append("\\r")
        elif ch == "\t":
            out.append("\\t")
        elif ch in ("'", "\\", "{"):
            out.append("\\" + ch)
        else:
            out.append(ch)
    return quote + "".join(out) + quote


def esc(cps):
    return "'" + "".join("\\u{%x}" % c for c in cps) + "'"


def text_of(cps, prov):
    n = len(utf8(cps))
    if prov == "lit":
        return lit(cps)
    if prov == "esc":
        return esc(cps)
    if prov == "sub":                       # a slice of a larger buffer (2 + n + 3 bytes)
        return "('é' + %s + '日')[2..%d]" % (lit(cps), 2 + n)
    if prov == "built":                     # a string built at run time (its own buffer, not a slice)
        return "('' + %s)" % lit(cps)
    if prov == "big":                       # a slice whose bounds do not fit 16 bits
        return "(BIG + %s)[70000..]" % lit(cps)
    raise ValueError(prov)


def enc_pred(r):
    S = lambda cps: "S" + "".join(".%d" % b for b in utf8(cps))
    t = r["t"]
    if t == "str":
        return S(r["v"])
    if t == "strs":
        return "T" + "".join(S(x) + "|" for x in r["v"])
    if t == "rngs":
        return "T" + "".join("R%d:%d|" % (a, b) for a, b in r["v"])
    if t == "ints":
        return "T" + "".join("I%d|" % n for n in r["v"])
    if t == "int":
        return "I%d" % r["v"]
    if t == "bool":
        return "B" + ("true" if r["v"] else "false")
    if t == "null":
        return "N"
    if t == "err":
        return "ERR"
    return None                              # any / num


def opts_text(o):
    s = "".join(chr(c) for c in o["fill"])
    if o["fill"] == [48] and o["align"] == "":
        s = "0"
    s += o["align"]
    if o["width"] >= 0:
        s += str(o["width"])
    if o["prec"] >= 0:
        s += ".%d" % o["prec"]
    return s + o["rep"]


PIECE = {"n": "\\n", "r": "\\r", "t": "\\t", "sq": "\\'", "dq": '\\"', "bs": "\\\\", "brace": "\\{"}


def piece_text(p):
    if p["k"] == "plain":
        return chr(p["c"])
    if p["k"] == "u":
        return "\\u{%x}" % p["c"]
    if p["k"] == "x":
        return "\\x%02x" % p["c"]
    return PIECE[p["k"]]


def expr(c, prov):
    op, a = c["op"], c["a"]
    if op == "literal":
        return "koto.run(r###\"'%s'\"###)" % "".join(piece_text(p) for p in a)
    if op == "format_int":
        return "'{%d:%s}'" % (a["n"], opts_text(a["o"]))
    s = text_of(c["s"], prov)
    P = lambda cps: lit(cps)
    n = lambda v: "(%d)" % v if v < 0 else str(v)
    if op == "format_str":
        return "(|s| '{s:%s}')(%s)" % (opts_text(a), s)
    if op == "slice":
        return "%s[%s..%s]" % (s, n(a[0]), n(a[1]))
    if op == "index":
        return "%s[%s]" % (s, n(a[0]))
    if op == "slice_from":
        return "%s[%d..]" % (s, a[0])
    if op == "slice_to":
        return "%s[..%d]" % (s, a[0])
    if op == "slice_incl":
        return "%s[%d..=%d]" % (s, a[0], a[1])
    if op in ("chars", "char_indices", "bytes", "lines"):
        return "%s.%s().to_tuple()" % (s, op)
    if op == "again":
        return "again(%s.%s())" % (s, a[0])
    if op == "split_again":
        return "again(%s.split(%s))" % (s, P(a[0]))
    if op == "size":
        return "size(%s)" % s
    if op == "iterate":
        return "iter_all(%s)" % s
    if op == "split":
        return "%s.split(%s).take(40).to_tuple()" % (s, P(a[0]))
    if op == "split_fn":
        return "%s.split(|c| c == %s).to_tuple()" % (s, P(a[0]))
    if op in ("contains", "starts_with", "ends_with", "strip_prefix", "strip_suffix"):
        return "%s.%s(%s)" % (s, op, P(a[0]))
    if op in ("trim_p", "trim_start_p", "trim_end_p"):
        return "%s.%s(%s)" % (s, op[:-2], P(a[0]))
    if op == "replace":
        return "%s.replace(%s, %s)" % (s, P(a[0]), P(a[1]))
    if op in ("trim", "trim_start", "trim_end", "to_uppercase", "to_lowercase", "to_number"):
        return "%s.%s()" % (s, op)
    if op == "repeat":
        return "%s.repeat(%s)" % (s, n(a[0]))
    if op == "to_number_base":
        return "%s.to_number(%d)" % (s, a[0])
    raise ValueError(op)


def valid_text(line):
    """Every string segment of an encoded result must be valid UTF-8."""
    for seg in line.replace("|", " ").replace("T", " ").split():
        if seg.startswith("S"):
            try:
                bytes(int(x) for x in seg[1:].split(".") if x).decode("utf-8")
            except (UnicodeDecodeError, ValueError):
                return False
    return True


def batch_src(items):
    return PRELUDE + "".join("t %d, || %s\n" % (i, e) for i, c, p, e in items)


def parse_out(r):
    out = {}
    for ln in (r.get("stdout") or "").split("\n"):
        if ln.strip():
            k, _, v = ln.partition(" ")
            out[int(k)] = v
    return out


def bisect(items, attributed):
    """A batch that did not run to its end (panic, abort, time-out): narrow it down to single cases."""
    r = common.kv("run", [{"id": 0, "src": batch_src(items), "limit_ms": 120000}], per_job_timeout=180)[0]
    if r.get("status") == "ok":
        return parse_out(r)
    if len(items) == 1:
        attributed.append((items[0], r))
        return {}
    h = len(items) // 2
    out = bisect(items[:h], attributed)
    out.update(bisect(items[h:], attributed))
    return out


def run(tier, seed):
    rep = common.Report(PROP, tier, "model_checking", seed)
    rng = random.Random(seed)
    quick = tier == "quick"
    groups = [("slice", 3 if quick else 4), ("slice_open", 3 if quick else 4), ("clusters", 4 if quick else 5), ("pattern", 3 if quick else 4),
              ("trim", 3 if quick else 5), ("case", 3 if quick else 4), ("number", 3 if quick else 4), ("format", 2 if quick else 3),
              ("format_int", 1), ("escape", 2 if quick else 3)]
    cases = []
    states = 0
    per_group = {}
    for g, ml in groups:
        r = common.run_tlc("Strings", "Strings.cfg", workers=16, env={"GROUP": g, "MAXLEN": ml}, timeout=3000, coverage=False, tag="str_" + g, xmx="8g")
        if r.rc != 0:
            if "law violated on the definitions" in r.stdout:
                path = rep.violation("law_%s" % g, {"property": PROP, "why": "a law of the property fails on the definitions", "tlc": r.stdout[-3000:]})
                continue
            raise common.ToolError("Strings.tla (%s) failed:\n%s" % (g, r.stdout[-2000:]))
        vals = common.tlc_values(r, "CASES")
        n0 = len(cases)
        for v in vals:
            cases.extend(v)
        per_group[g] = {"max_len": ml, "keys": len(vals), "cases": len(cases) - n0}
        states += r.distinct
    if not cases:
        raise common.ToolError("no cases")
    # provenance of the subject string: each case as a literal, plus one other construction
    items = []
    for i, c in enumerate(cases):
        if c["op"] in ("literal", "format_int"):
            provs = ["lit"]
        else:
            provs = ["lit", rng.choice(["esc", "sub", "built", "big"])]
            if quick and rng.random() < 0.5:
                provs = provs[1:] if rng.random() < 0.5 else provs[:1]
        for p in provs:
            items.append((len(items), c, p, expr(c, p)))
    B = 500
    batches = [items[k:k + B] for k in range(0, len(items), B)]
    attributed = []
    outputs = {}
    res = common.kv_parallel("run", [{"id": k, "src": batch_src(b), "limit_ms": 120000} for k, b in enumerate(batches)], per_job_timeout=180)
    for b, r in zip(batches, res):
        if r.get("status") == "ok":
            outputs.update(parse_out(r))
        else:
            outputs.update(bisect(b, attributed))
    nbad = 0
    decided = 0
    for (i, c, p, e) in items:
        got = outputs.get(i)
        want = enc_pred(c["r"])
        why = None
        if got is None:
            hit = [r for (it, r) in attributed if it[0] == i]
            if hit:
                why = "%s: %s" % (hit[0].get("status"), (hit[0].get("err_msg") or "")[:300])
            else:
                why = "no output for the case"
        elif not valid_text(got):
            why = "the result is not valid UTF-8 text: %s" % got
        elif want is not None and got != want:
            why = "expected %s, got %s" % (want, got)
        elif c["r"]["t"] == "num" and not got.startswith("I"):
            why = "expected a number, got %s" % got
        if want is not None:
            decided += 1
        if why:
            nbad += 1
            if nbad <= 400:
                rep.violation("str_%d" % i, {"property": PROP, "why": why, "case": c, "provenance": p, "expression": e,
                                             "string": "".join(chr(x) for x in c["s"]) if isinstance(c["s"], list) and all(isinstance(x, int) for x in c["s"]) else None})
    rep.coverage = {
        "states": states, "transitions": states, "traces_validated_against_impl": len(items),
        "evaluations": len(items), "distinct_nontrivial": decided,
        "rule": "every string over the group's alphabet up to max_len code points (slice/clusters/format: a, e-acute, CJK, emoji, "
                "combining acute, CR, LF, space, ZWJ; pattern: a, e-acute, combining, X; trim: a, space, LF, ideographic space, combining; "
                "case: a/A, e-acute/E-acute, sharp s, S/s, CJK, combining; number: 0 1 7 9 a f x b o - . z) x every argument from one "
                "before to two beyond the byte length (slices), every pattern up to 2 code points, the format option grid fill x "
                "alignment x width x precision (x radix for integers), literals of up to max_len escape pieces; counted: cases the "
                "documentation decides (the rest must still return valid text or an error)",
        "per_group": per_group, "exhaustive_within_bounds": True,
        "samples": [{"case": cases[len(cases) // 3], "expression": expr(cases[len(cases) // 3], "sub") if cases[len(cases) // 3]["op"] not in ("literal", "format_int") else ""}],
    }
    rep.assumptions = ["slices that reach outside the string, radix or zero padding of negative numbers, "
                       "and to_number on texts the documentation does not classify are not decided (valid text or an error is required)",
                       "grapheme clusters follow UAX #29 restricted to the classes in the alphabet"]
    return rep.finish()


def replay(path):
    d = json.load(open(path))
    c = d["case"]
    e = expr(c, d["provenance"])
    src = PRELUDE + "t 0, || %s\n" % e
    r = common.kv("run", [{"id": 0, "src": src, "limit_ms": 20000}])[0]
    got = (r.get("stdout") or "").strip().partition(" ")[2] if r.get("status") == "ok" else None
    want = enc_pred(c["r"])
    print(e); print("expected:", want, "got:", got, r.get("status"))
    if got is None or not valid_text(got) or (want is not None and got != want):
        print("VIOLATION property=%s replay=%s" % (PROP, path)); return 1
    return 0
