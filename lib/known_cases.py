"""Pinned inputs of the recorded known findings (known_findings.json), as syntax trees so that the TLA+
machine computes both the ideal prediction (no deviation) and the as-is prediction (deviation enabled)."""
from kast import *


def f28_cases():
    out = []
    # return inside try with finally
    reset_ids()
    f = Fn([], Block([Try(Block([Core("print", [Str("body")]), Return(Int(1))]),
                          [("e", "", Block([Core("print", [Str("catch")])]))],
                          Block([Core("print", [Str("finally")])])), Int(2)]))
    out.append(("F28-return", Block([Asg("f", f), Core("print", [App(Id("f"), [])]), Str("end")])))
    # break inside try with finally
    reset_ids()
    out.append(("F28-break", Block([For(["i"], Range(Int(0), Int(3)),
                                        Block([Try(Block([Core("print", [Id("i")]),
                                                          If([Cmp(["=="], [Id("i"), Int(1)])], [Block([Break()])])]),
                                                   [("e", "", Block([Core("print", [Str("catch")])]))],
                                                   Block([Core("print", [Str("finally")])]))])), Str("end")])))
    # continue inside try with finally
    reset_ids()
    out.append(("F28-continue", Block([For(["i"], Range(Int(0), Int(2)),
                                           Block([Try(Block([Core("print", [Id("i")]), Continue()]),
                                                      [("e", "", Block([Core("print", [Str("catch")])]))],
                                                      Block([Core("print", [Str("finally")])]))])), Str("end")])))
    # error thrown in the catch block
    reset_ids()
    inner = Try(Block([Throw(Str("first"))]), [("e", "", Block([Core("print", [Str("catch")]), Throw(Str("second"))]))],
                Block([Core("print", [Str("finally")])]))
    out.append(("F28-throw-in-catch", Block([Try(Block([inner]), [("e2", "", Block([Core("print", [Id("e2")])]))]), Str("end")])))
    return out


CASES = {"F28": ("C04", f28_cases)}
