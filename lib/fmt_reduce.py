"""Line-based reduction of a formatter counterexample (development aid)."""
import json, sys
sys.path.insert(0, "/verif/lib")
import common, check_c11


def fails(src, opts):
    r = common.kv("format", [dict({"id": 0, "src": src}, **opts)])[0]
    if r.get("status") == "parse_error":
        return None
    if r.get("status") != "ok":
        return r.get("status")
    if r.get("canon_out") is None:
        return "noparse"
    if check_c11.canon(r["canon_in"]) != check_c11.canon(r["canon_out"]):
        return "ast"
    if r.get("text") != r.get("text2"):
        return "idem"
    return None


def reduce(src, opts):
    kind = fails(src, opts)
    lines = src.split("\n")
    n = 2
    while len(lines) >= 2:
        chunk = max(1, len(lines) // n)
        progressed = False
        for i in range(0, len(lines), chunk):
            cand = lines[:i] + lines[i + chunk:]
            if cand and fails("\n".join(cand), opts) == kind:
                lines = cand
                n = max(n - 1, 2)
                progressed = True
                break
        if not progressed:
            if chunk == 1:
                break
            n = min(n * 2, len(lines))
    return kind, "\n".join(lines)


if __name__ == "__main__":
    common.build_harness("rc")
    for p in sys.argv[1:]:
        d = json.load(open(p))
        kind, m = reduce(d["source"], d.get("options", {}))
        print("=====", p, kind, d.get("options"))
        print(m)
        r = common.kv("format", [dict({"id": 0, "src": m}, **d.get("options", {}))])[0]
        print("--- formatted"); print(r.get("text")); print("---", (r.get("canon_out_err") or r.get("err_msg") or "")[:200])
