#!/bin/sh
# trymutant.sh <patch> <check ids...>: apply a seeded change to /repo, run the checks, undo it.
patch="$1"; shift
cd /repo && git apply "$patch" || exit 3
cd /verif
for c in "$@"; do
  rm -rf work/replays/$c
  out=$(./check $c 2>&1); rc=$?
  n=$(echo "$out" | grep -c "^VIOLATION")
  echo "check $c: rc=$rc violations=$n"
  echo "$out" | grep "^VIOLATION" | head -3
done
cd /verif && git checkout -- evidence      # evidence written while a seeded change was applied says nothing about the tree
cd /repo && git checkout -- . && git status --short | head -3
