"""C19 — rc and arc builds behave identically; shared containers are atomic under arc.
(1) rc == arc: programs of the KotoCore families are predicted once by the machine and run on both builds; both must match the
    prediction and each other.
(2) Shared.tla: the lock steps of the list operations (transcribed from core_lib/list.rs) model-checked over all scripts and
    interleavings: NoPanic, Linearizable (Explains), LocksAreSound, no deadlock for single-container operations.  The model with
    the two-step insert/remove of the code as it was must be rejected (guards against a model that lost its teeth).
(3) Real threads on the arc build (kv threads): (a) small rounds, 2-4 runtimes x 2-4 operations on one shared list, validated by
    TLC against SharedOps!Explains (Trace_Shared.tla): some one-at-a-time order must explain all results and the final contents;
    (b) soak rounds, two to four runtimes looping over racing operation pairs on a shared list or map: no panic, no hang, no lost
    update (exact counts), no reader sees a partially applied multi-element update."""
import itertools, json, os, random
import common, core_replay, kast, gen_core, gen_calls, gen_match, gen_errors, gen_heap, gen_dispatch, gen_hints

PROP = "C19"

T_FN = """t = |mode, f|
  r = try
    v = f()
    if mode == 'n' then 'n' else v
  catch e
    'e'
  print r
"""


def op_line(op):
    k = op["k"]
    if k == "push":
        return "t 'n', || shared.push %d" % op["v"]
    if k == "pop":
        return "t 'v', || shared.pop()"
    if k == "clear":
        return "t 'n', || shared.clear()"
    if k == "get":
        return "t 'v', || shared.get %d" % op["i"]
    if k == "size":
        return "t 'v', || size shared"
    if k == "insert":
        return "t 'n', || shared.insert %d, %d" % (op["i"], op["v"])
    if k == "remove":
        return "t 'v', || shared.remove %d" % op["i"]
    if k == "sort":
        return "t 'n', || shared.sort()"
    if k == "fill":
        return "t 'n', || shared.fill %d" % op["v"]
    raise ValueError(k)


def res_of(line):
    if line == "n" or line == "null":
        return {"t": "n", "v": 0}
    if line == "e":
        return {"t": "e", "v": 0}
    return {"t": "i", "v": int(line)}


def gen_round(rng, rid):
    nt = rng.choice([2, 2, 3, 3, 4])
    nops = rng.choice([2, 3, 3, 4]) if nt < 4 else 2
    scripts = []
    for t in range(nt):
        ops = []
        for j in range(nops):
            k = rng.choice(["push", "push", "pop", "clear", "get", "size", "insert", "remove", "remove", "insert", "sort", "fill"])
            ops.append({"k": k, "c": 1, "d": 0, "i": rng.choice([0, 1, 2, 3]), "v": 100 * (t + 1) + j})
        scripts.append(ops)
    return {"id": rid, "scripts": scripts, "mem0": [[10, 20]]}


SOAK = [
    # (name, kind, init, scripts, check(final, threads) -> why or None)
    ("push_push", "list", [], ["for i in 0..N\n  shared.push 1\n", "for i in 0..N\n  shared.push 2\n", "for i in 0..N\n  shared.push 3\n"],
     lambda fin, th, N: None if len(fin) == 3 * N else "lost update: %d elements after 3 x %d pushes" % (len(fin), N)),
    ("insert_vs_shrink", "list", [1, 2, 3],
     ["for i in 0..N\n  n = size shared\n  try\n    shared.insert n, i\n  catch e\n    null\n", "for i in 0..N\n  shared.clear()\n",
      "for i in 0..N\n  n = size shared\n  try\n    if n > 0\n      shared.remove(n - 1)\n  catch e\n    null\n", "for i in 0..N\n  shared.pop()\n"],
     lambda fin, th, N: None),
    ("extend_vs_readers", "list", [],
     ["for i in 0..N\n  shared.extend (1, 2, 3)\n", "bad = 0\nfor i in 0..N\n  if (size shared) % 3 != 0\n    bad += 1\nprint bad\n",
      "bad = 0\nfor i in 0..N\n  x = shared.to_tuple()\n  if (size x) % 3 != 0\n    bad += 1\nprint bad\n"],
     lambda fin, th, N: None if all((t.get("stdout") or "0").strip() in ("", "0") for t in th) else "a reader saw a partially applied extend: %s" % [t.get("stdout") for t in th]),
    ("fill_vs_readers", "list", [0, 0, 0, 0, 0, 0, 0, 0],
     ["for i in 0..N\n  shared.fill i\n", "bad = 0\nfor i in 0..N\n  x = shared.to_tuple()\n  if x.min() != x.max()\n    bad += 1\nprint bad\n"],
     lambda fin, th, N: None if all((t.get("stdout") or "0").strip() in ("", "0") for t in th) else "a reader saw a partially applied fill: %s" % [t.get("stdout") for t in th]),
    ("index_assign_vs_pop", "list", [1, 2, 3, 4],
     ["for i in 0..N\n  try\n    shared[(size shared) - 1] = i\n  catch e\n    null\n", "for i in 0..N\n  shared.pop()\n  shared.push 0\n", "for i in 0..N\n  try\n    x = shared[(size shared) - 1]\n  catch e\n    null\n"],
     lambda fin, th, N: None),
    ("index_read_vs_writers", "list", [1, 2, 3, 4, 5, 6, 7, 8],
     ["s = 0\nfor i in 0..M\n  s += shared[1]\n", "s = 0\nfor i in 0..M\n  s += shared[0]\n", "for i in 0..M\n  shared.push i\n  shared.pop()\n",
      "for i in 0..M\n  shared[2] = i\n"],
     lambda fin, th, N: None if len(fin) == 8 else "pushes and pops did not balance: %d elements" % len(fin)),
    ("reverse_sort_vs_readers", "list", [5, 3, 1, 4, 2],
     ["for i in 0..N\n  shared.sort()\n  shared.reverse()\n", "bad = 0\nfor i in 0..N\n  if shared.to_tuple().sum() != 15\n    bad += 1\nprint bad\n"],
     lambda fin, th, N: None if all((t.get("stdout") or "0").strip() in ("", "0") for t in th) else "a reader saw a partially sorted list: %s" % [t.get("stdout") for t in th]),
    # operations that rewrite the whole list against operations that change its length: no push may be lost
    # (the rewriting thread runs fewer iterations: each one is linear in the list's length)
] + [
    ("%s_vs_pushers" % nm, "list", [5, 3, 1, 4, 2],
     ["for i in 0..(N / 20)\n  %s\n" % op, "for i in 0..N\n  shared.push 1\n", "for i in 0..N\n  shared.push 2\n"],
     (lambda nm: lambda fin, th, N: None if len(fin) == 5 + 2 * N else "lost update: %d elements after 2 x %d pushes next to %s (expected %d)" % (len(fin), N, nm, 5 + 2 * N))(nm))
    for nm, op in (("fill", "shared.fill 0"), ("sort", "shared.sort()"), ("reverse", "shared.reverse()"))
] + [
    ("map_sort_vs_inserts", "map", [3, 1, 2],
     ["for i in 0..(N / 20)\n  shared.sort()\n", "for i in 0..N\n  shared.insert 'a{i}', i\n", "for i in 0..N\n  shared.insert 'b{i}', i\n"],
     lambda fin, th, N: None if len(fin) == 3 + 2 * N else "lost update: %d entries after 2 x %d inserts of distinct keys next to sort (expected %d)" % (len(fin), N, 3 + 2 * N)),
    ("map_insert_distinct", "map", [],
     ["for i in 0..N\n  shared.insert 'a{i}', i\n", "for i in 0..N\n  shared.insert 'b{i}', i\n", "for i in 0..N\n  shared.insert 'c{i}', i\n"],
     lambda fin, th, N: None if len(fin) == 3 * N else "lost update: %d entries after 3 x %d inserts of distinct keys" % (len(fin), N)),
    ("map_remove_disjoint", "map", list(range(2400)),
     ["bad = 0\nfor i in 0..600\n  k = i * 4 + %d\n  if shared.remove('k{k}') != k\n    bad += 1\nprint bad\n" % j for j in range(4)],
     lambda fin, th, N: None if all((t.get("stdout") or "0").strip() in ("", "0") for t in th) and len(fin) == 0
     else "removals of distinct keys interfered: wrong results per thread %s, %d entries left" % ([(t.get("stdout") or "").strip() for t in th], len(fin))),
    ("map_insert_remove", "map", [1, 2, 3],
     ["for i in 0..N\n  shared.insert 'x', i\n  shared.remove 'x'\n", "for i in 0..N\n  shared.insert 'x', -i\n", "for i in 0..N\n  y = shared.get 'x'\n  z = size shared\n  k = shared.keys().to_tuple()\n"],
     lambda fin, th, N: None),
    ("map_access_assign", "map", [1],
     ["for i in 0..N\n  shared.count = i\n", "for i in 0..N\n  shared.other = i\n", "for i in 0..N\n  shared.remove 'other'\n  x = shared.get 'count'\n"],
     lambda fin, th, N: None),
]


def run(tier, seed):
    rep = common.Report(PROP, tier, "model_checking", seed)
    rng = random.Random(seed)
    quick = tier == "quick"
    # ---- (1) rc == arc on predicted programs
    g1, g2, ge = gen_core.Gen(rng), gen_calls.CallGen(rng), gen_errors.ErrGen(rng)
    progs = []
    n = 150 if quick else 2500
    for i in range(n):
        progs += [{"id": "c%d" % i, "ast": g1.program()}, {"id": "f%d" % i, "ast": g2.program()}, {"id": "e%d" % i, "ast": ge.program()},
                  {"id": "g%d" % i, "ast": gen_calls.generator_program(rng)}, {"id": "m%d" % i, "ast": gen_match.match_random(rng, 1)[0]}]
    hist = [gen_heap.history_program(idx) for idx in gen_heap.histories(3, rng, 60 if quick else 800)]
    progs += [{"id": "h%d" % i, "ast": a} for i, a in enumerate(hist)]
    disp = list(gen_dispatch.arithmetic()) + list(gen_dispatch.protocols())
    hints = list(gen_hints.programs())
    rng.shuffle(disp); rng.shuffle(hints)
    progs += [{"id": "d%d" % i, "ast": a} for i, a in enumerate(disp[:100 if quick else 2000])]
    progs += [{"id": "t%d" % i, "ast": a} for i, a in enumerate(hints[:100 if quick else 2000])]
    preds, st = core_replay.predict(progs, tag="c19", shards=8, dev=("F28",))
    jobs = [{"id": p["id"], "src": kast.render(p["ast"]), "limit_ms": 5000} for p in progs if preds[p["id"]]["status"] in ("ok", "err")]
    rc = common.kv_parallel("run", jobs, flavor="rc")
    arc = common.kv_parallel("run", jobs, flavor="arc")
    for job, a, b in zip(jobs, rc, arc):
        why = core_replay.compare(preds[job["id"]], b)
        if why:
            why = "arc build: " + why
        elif (a.get("status"), a.get("stdout"), a.get("value"), a.get("err_head")) != (b.get("status"), b.get("stdout"), b.get("value"), b.get("err_head")):
            why = "rc and arc differ: %s / %s" % ((a.get("status"), a.get("value"), (a.get("stdout") or "")[-120:]), (b.get("status"), b.get("value"), (b.get("stdout") or "")[-120:]))
        if why:
            rep.violation("diff_%s" % job["id"], {"property": PROP, "why": why, "source": job["src"], "predicted": preds[job["id"]], "rc": a, "arc": b})
    # ---- (2) the lock-step model
    mc = []
    cfgs = [{"TWOSTEP": "0", "THREADS": 2, "OPS": 2, "FAMILY": "single", "FULLOPS": "0"}]
    if not quick:
        cfgs += [{"TWOSTEP": "0", "THREADS": 3, "OPS": 1, "FAMILY": "single", "FULLOPS": "1"}, {"TWOSTEP": "0", "THREADS": 2, "OPS": 2, "FAMILY": "single", "FULLOPS": "1"}]
    states = st["states"]
    for env in cfgs:
        r = common.run_tlc("Shared", "Shared.cfg", workers=8, env=env, timeout=3000, coverage=True, deadlock=True, tag="shared", xmx="8g")
        mc.append({"config": env, "distinct": r.distinct, "rc": r.rc, "violated": r.invariant_violated})
        states += r.distinct
        if r.rc != 0:
            what = r.invariant_violated or ("deadlock" if "Deadlock reached" in r.stdout else None)
            if what is None:
                raise common.ToolError("Shared.tla failed:\n" + r.stdout[-2500:])
            rep.violation("model_%s" % what, {"property": PROP, "why": "the lock-step model of the list operations violates %s" % what, "config": env, "tlc": r.stdout[-6000:]})
    r = common.run_tlc("Shared", "Shared.cfg", workers=8, env={"TWOSTEP": "1", "THREADS": 2, "OPS": 2, "FAMILY": "single", "FULLOPS": "0"}, timeout=3000,
                       coverage=False, deadlock=True, tag="shared_two")
    if r.invariant_violated != "NoPanic":
        raise common.ToolError("self-test: the two-step insert/remove model was not rejected (%s)" % r.invariant_violated)
    r = common.run_tlc("Shared", "Shared.cfg", workers=8, env={"TWOSTEP": "2", "THREADS": 2, "OPS": 2, "FAMILY": "single", "FULLOPS": "0"}, timeout=3000,
                       coverage=False, deadlock=True, tag="shared_find")
    if r.invariant_violated != "Linearizable":
        raise common.ToolError("self-test: the two-step remove-by-value model was not rejected by Linearizable (%s)" % r.invariant_violated)
    r = common.run_tlc("Shared", "Shared.cfg", workers=8, env={"TWOSTEP": "3", "THREADS": 2, "OPS": 2, "FAMILY": "single", "FULLOPS": "0"}, timeout=3000,
                       coverage=False, deadlock=True, tag="shared_rewrite")
    if r.invariant_violated != "Linearizable":
        raise common.ToolError("self-test: the two-step sort / fill model was not rejected by Linearizable (%s)" % r.invariant_violated)
    r = common.run_tlc("Shared", "Shared.cfg", workers=8, env={"TWOSTEP": "0", "THREADS": 2, "OPS": 1, "FAMILY": "pair", "FULLOPS": "0"}, timeout=3000,
                       coverage=False, deadlock=True, tag="shared_pair")
    pair_deadlock = "Deadlock reached" in r.stdout
    # ---- (3a) small rounds on real threads, validated against SharedOps!Explains
    rounds = [gen_round(rng, i) for i in range(400 if quick else 12000)]
    tjobs = [{"id": r0["id"], "kind": "list", "init": [10, 20], "scripts": [T_FN + "\n".join(op_line(o) for o in s) + "\n" for s in r0["scripts"]]} for r0 in rounds]
    tres = common.kv_parallel("threads", tjobs, flavor="arc", per_job_timeout=90, shards=4)
    recs = []
    for r0, tr in zip(rounds, tres):
        bad = None
        if tr.get("status") != "ok":
            bad = "round %s: %s" % (tr.get("status"), (tr.get("err_msg") or "")[:200])
        elif any(t.get("status") != "ok" for t in tr["threads"]):
            bad = "a thread ended with %s" % [(t.get("status"), (t.get("err_msg") or "")[:200]) for t in tr["threads"] if t.get("status") != "ok"]
        if bad:
            rep.violation("round_%d" % r0["id"], {"property": PROP, "why": bad, "round": r0, "result": tr})
            continue
        obs = [[res_of(x) for x in (t.get("stdout") or "").split("\n") if x != ""] for t in tr["threads"]]
        if any(len(o) != len(s) for o, s in zip(obs, r0["scripts"])):
            rep.violation("round_%d" % r0["id"], {"property": PROP, "why": "a thread did not report every operation", "round": r0, "result": tr})
            continue
        recs.append({"id": r0["id"], "scripts": r0["scripts"], "obs": obs, "mem0": r0["mem0"], "final": [[int(x) for x in tr["final"]]]})
    pth = os.path.join(common.WORK, "rounds_%d.ndjson" % os.getpid())
    with open(pth, "w") as f:
        for r0 in recs:
            f.write(json.dumps(r0) + "\n")
    tl = common.run_tlc("Trace_Shared", "Trace_Shared.cfg", workers=8, env={"ROUNDS": pth}, timeout=3000, coverage=False, tag="trace_shared", xmx="8g")
    os.remove(pth)
    if tl.rc != 0:
        raise common.ToolError("Trace_Shared.tla failed:\n" + tl.stdout[-2500:])
    by_id = {r0["id"]: r0 for r0 in recs}
    for v in common.tlc_values(tl, "REJECTED"):
        rep.violation("round_%d" % v["id"], {"property": PROP, "why": "no one-at-a-time order of the operations explains what the threads observed and the final contents",
                                            "round": by_id[v["id"]]})
    states += tl.distinct
    # binding self-test: a corrupted record must be rejected
    if recs:
        bad = json.loads(json.dumps(recs[0])); bad["final"] = [bad["final"][0] + [424242]]
        with open(pth, "w") as f:
            f.write(json.dumps(bad) + "\n")
        t2 = common.run_tlc("Trace_Shared", "Trace_Shared.cfg", workers=1, env={"ROUNDS": pth}, timeout=600, coverage=False, tag="trace_shared_self")
        os.remove(pth)
        if not common.tlc_values(t2, "REJECTED"):
            raise common.ToolError("self-test: a round with corrupted final contents was accepted")
    # ---- (3b) soak rounds
    N = 3000 if quick else 60000
    M = 150000 if quick else 1500000       # iterations of the cheap index-read round
    sj = [{"id": i, "kind": kind, "init": init, "scripts": [s.replace("M", str(M)).replace("N", str(N)).replace("Q", str(N // 20)) for s in scripts], "watchdog_s": 60 if quick else 900}
          for i, (name, kind, init, scripts, chk) in enumerate(SOAK)]
    sres = common.kv_parallel("threads", sj, flavor="arc", per_job_timeout=600, shards=3)
    for (name, kind, init, scripts, chk), tr in zip(SOAK, sres):
        why = None
        if tr.get("status") != "ok":
            why = "round %s (deadlock?): %s" % (tr.get("status"), (tr.get("err_msg") or "")[:200])
        elif any(t.get("status") != "ok" for t in tr["threads"]):
            why = "a thread ended with %s" % [(t.get("status"), (t.get("err_msg") or "")[:300]) for t in tr["threads"] if t.get("status") != "ok"]
        else:
            why = chk(tr["final"], tr["threads"], N)
        if why:
            rep.violation("soak_%s" % name, {"property": PROP, "why": why, "soak": name, "kind": kind, "init": init, "scripts": [s.replace("M", str(M)).replace("N", str(N)).replace("Q", str(N // 20)) for s in scripts],
                                             "iterations": N})
    rep.coverage = {
        "states": states, "transitions": states, "traces_validated_against_impl": 2 * len(jobs) + len(recs) + len(SOAK),
        "evaluations": 2 * len(jobs) + len(rounds) + len(SOAK), "distinct_nontrivial": len(jobs) + len(recs),
        "programs_run_on_both_builds": len(jobs), "model_checking": mc, "two_step_model_rejected_by": "NoPanic", "two_step_remove_by_value_rejected_by": "Linearizable",
        "two_container_operations_can_deadlock_in_the_model": pair_deadlock,
        "rounds_validated_by_tlc": len(recs), "rounds_rejected": len(common.tlc_values(tl, "REJECTED")), "soak_iterations_per_thread": N,
        "soak_rounds": [s[0] for s in SOAK],
        "rule": "programs of the KotoCore families (core, calls, errors, generators, match, container histories, dispatch, hints) run on the rc "
                "and the arc build against one prediction; Shared.tla: every pair of scripts of 2 operations over the operation set (all "
                "interleavings of lock steps)%s; %d rounds of 2-4 threads x 2-4 random list operations on real threads validated by "
                "Trace_Shared.tla; %d soak rounds of %d iterations per thread" % ("" if quick else ", 3 threads x 1 operation, full operation set", len(rounds), len(SOAK), N),
        "samples": [{"round": rounds[0]}],
    }
    rep.assumptions = ["atomicity is claimed for operations that touch one container and take no callback; operations with callbacks (sort with a key "
                       "function, retain, transform, map.update) and on two containers (swap, extend from another list) are outside the claim: the model "
                       "shows that swap(a, b) against swap(b, a) can deadlock",
                       "real threads cannot be scheduled: small rounds mostly run one after another; narrow races are reached by the model and by the soak rounds"]
    return rep.finish()


def replay(path):
    d = json.load(open(path))
    if "soak" in d:
        tr = common.kv("threads", [{"id": 0, "kind": d["kind"], "init": d["init"], "scripts": d["scripts"]}], flavor="arc", per_job_timeout=600)[0]
        bad = tr.get("status") != "ok" or any(t.get("status") != "ok" for t in tr["threads"])
        print(d["why"]); print(tr.get("status"), [t.get("status") for t in tr.get("threads", [])])
        if not bad:
            chk = [s for s in SOAK if s[0] == d["soak"]][0][4]
            bad = chk(tr["final"], tr["threads"], d["iterations"]) is not None
    elif "source" in d:
        a = common.kv("run", [{"id": 0, "src": d["source"], "limit_ms": 5000}], flavor="rc")[0]
        b = common.kv("run", [{"id": 0, "src": d["source"], "limit_ms": 5000}], flavor="arc")[0]
        bad = core_replay.compare(d["predicted"], b) is not None or (a.get("status"), a.get("stdout"), a.get("value")) != (b.get("status"), b.get("stdout"), b.get("value"))
        print(d["why"])
    else:
        print(d["why"]); print("a recorded round or model counterexample: see the file")
        bad = True
    if bad:
        print("VIOLATION property=%s replay=%s" % (PROP, path)); return 1
    return 0
