"""C03 — match and unpacking: subject x pattern matrix decided by the KotoCore machine, replayed."""
import random
import common, core_replay, gen_match

PROP = "C03"
ASSUME = ["KotoCore.tla MatchPat/TryArms encode docs/language_guide.md (match, Value Unpacking, Unpacking Arguments, "
          "Type Checks on match patterns); subject/pattern pairs the guide does not decide (strings, ranges, maps or "
          "objects against tuple patterns, named rest of a list) are discarded",
          "kast.render prints the syntax tree it is given"]


def run(tier, seed):
    rng = random.Random(seed)
    quick = tier == "quick"
    fams = [
        ("mm", list(gen_match.match_matrix(rng, 2500 if quick else None)), 0 if quick else 1, 1, ("top", "fn0") if quick else None),
        ("ma", list(gen_match.match_alternatives(rng, 2500 if quick else None)), 0, 1, ("top", "fn0") if quick else None),
        ("ap", list(gen_match.arg_pattern_matrix(rng, 1200 if quick else None)), 0, 1, ("top", "fn0")),
        ("mr", gen_match.match_random(rng, 400 if quick else 10000), 1, 3, None),
        ("un", list(gen_match.unpack_matrix()), 1, 2, ("top", "fn3")),
    ]
    rep, preds, progs = core_replay.family_check(
        PROP, tier, seed, fams,
        rule="match matrix: 28 subject values x 62 patterns (literals, ids, wildcards, nested tuple patterns with "
             "leading/trailing ... and named rest, map patterns with `as`, typed patterns) x arm position 0..2 x "
             "guard none/true/false x trailing catch-all/else/nothing, and every pattern as first/second of two `or` alternatives x guard (both sampled in quick, complete in thorough); random "
             "matches with `or` alternatives and guards using bindings over a side-effecting subject; the complete "
             "unpacking matrix (multi-assignment and for-arguments against every iterable shape of length 0..4). "
             "Counted: programs decided by the machine.",
        assumptions=ASSUME)
    return rep.finish()


def replay(path):
    return core_replay.generic_replay(PROP, path)
