"""Trace validation of real VM executions against spec/KotoVm.tla (Trace_KotoVm)."""
import json, os
from concurrent.futures import ThreadPoolExecutor
import common


def record(jobs, flavor="rc", **kw):
    """Run jobs with hooks on; returns results (each with `events`)."""
    for j in jobs:
        j["hooks"] = True
    return common.kv_parallel("run", jobs, flavor=flavor, **kw)


def with_observe(res):
    """The event list of one execution followed by the host's observation of the idle runtime."""
    evs = list(res.get("events") or [])
    fs = res.get("final_state")
    if fs:
        evs.append({"e": "Observe", "vm": fs["vm"], "d": fs["d"], "r": fs["r"], "b": fs["b"], "q": fs["q"], "t": fs["t"],
                    "c": 0, "a": 0, "x": 0, "s": ""})
    return evs


def validate(traces, tag="vm", shards=8, timeout=900):
    """traces: list of {id, events}. Returns {id: verdict}, stats."""
    traces = [t for t in traces if t["events"]]
    if not traces:
        return {}, {"states": 0, "transitions": 0}
    common.ensure_dir(common.WORK)
    shards = max(1, min(shards, len(traces) // 10 or 1))
    parts = [traces[i::shards] for i in range(shards)]
    paths = []
    for i, part in enumerate(parts):
        p = os.path.join(common.WORK, "traces_%s_%d_%d.ndjson" % (tag, os.getpid(), i))
        with open(p, "w") as f:
            for t in part:
                f.write(json.dumps(t) + "\n")
        paths.append(p)

    def one(i):
        return common.run_tlc("Trace_KotoVm", "Trace_KotoVm.cfg", workers=2, env={"TRACES": paths[i]},
                              timeout=timeout, coverage=False, tag="%s_tv%d" % (tag, i), xmx="3g")

    with ThreadPoolExecutor(shards) as ex:
        results = list(ex.map(one, range(shards)))
    verdicts = {}
    states = trans = 0
    for i, res in enumerate(results):
        if res.rc != 0:
            raise common.ToolError("trace validation failed on shard %d:\n%s" % (i, res.stdout[-3000:]))
        for v in common.tlc_values(res, "VERDICT"):
            verdicts[v["id"]] = v
        states += res.distinct
        trans += res.states_generated
    for p in paths:
        try:
            os.remove(p)
        except OSError:
            pass
    missing = [t["id"] for t in traces if t["id"] not in verdicts]
    if missing:
        raise common.ToolError("no verdict for %d traces" % len(missing))
    return verdicts, {"states": states, "transitions": trans}
