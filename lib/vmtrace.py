"""Trace validation of real VM executions against spec/KotoVm.tla (Trace_KotoVm)."""
import json, os
from concurrent.futures import ThreadPoolExecutor
import common


def record(jobs, flavor="rc", **kw):
    """Run jobs with hooks on; returns results (each with `events`)."""
    for j in jobs:
        j["hooks"] = True
    return common.kv_parallel("run", jobs, flavor=flavor, **kw)


def with_observe(res):
    """The event list of one execution followed by the host's observation of the idle runtime."""
    evs = list(res.get("events") or [])
    fs = res.get("final_state")
    if fs:
        evs.append({"e": "Observe", "vm": fs["vm"], "d": fs["d"], "r": fs["r"], "b": fs["b"], "q": fs["q"], "t": fs["t"],
                    "c": 0, "a": 0, "x": 0, "s": ""})
    return evs


def _corruptions(traces):
    """Binding self-test material: copies of recorded traces with one event dropped / one field changed, which the
    specification must reject (a trace spec that accepts them constrains nothing)."""
    out = []
    for t in traces:
        evs = t["events"]
        if any(e["e"] == "Gap" for e in evs):
            continue
        pops = [i for i, e in enumerate(evs) if e["e"] == "FramePop"]
        pushes = [i for i, e in enumerate(evs) if e["e"] == "FramePush"]
        if pops and not any(x["id"] == "__selftest_drop_pop" for x in out):
            i = pops[len(pops) // 2]
            out.append({"id": "__selftest_drop_pop", "base": t["id"], "events": evs[:i] + evs[i + 1:]})
        if pushes and not any(x["id"] == "__selftest_depth" for x in out):
            i = pushes[-1]
            e2 = dict(evs[i]); e2["d"] = e2["d"] + 1
            out.append({"id": "__selftest_depth", "base": t["id"], "events": evs[:i] + [e2] + evs[i + 1:]})
        tries = [i for i, e in enumerate(evs) if e["e"] == "TryStart"]
        if tries and any(e["e"] == "Caught" for e in evs) and not any(x["id"] == "__selftest_drop_try" for x in out):
            i = tries[0]
            out.append({"id": "__selftest_drop_try", "base": t["id"], "events": evs[:i] + evs[i + 1:]})
        if len(out) >= 3:
            break
    return out


def validate(traces, tag="vm", shards=8, timeout=900):
    """traces: list of {id, events}. Returns {id: verdict}, stats."""
    traces = [t for t in traces if t["events"]]
    if not traces:
        return {}, {"states": 0, "transitions": 0}
    selftest = _corruptions(traces)
    traces = traces + selftest
    common.ensure_dir(common.WORK)
    shards = max(1, min(shards, len(traces) // 10 or 1))
    parts = [traces[i::shards] for i in range(shards)]
    paths = []
    for i, part in enumerate(parts):
        p = os.path.join(common.WORK, "traces_%s_%d_%d.ndjson" % (tag, os.getpid(), i))
        with open(p, "w") as f:
            for t in part:
                f.write(json.dumps(t) + "\n")
        paths.append(p)

    def one(i):
        return common.run_tlc("Trace_KotoVm", "Trace_KotoVm.cfg", workers=2, env={"TRACES": paths[i]},
                              timeout=timeout, coverage=False, tag="%s_tv%d" % (tag, i), xmx="3g")

    with ThreadPoolExecutor(shards) as ex:
        results = list(ex.map(one, range(shards)))
    verdicts = {}
    states = trans = 0
    for i, res in enumerate(results):
        if res.rc != 0:
            raise common.ToolError("trace validation failed on shard %d:\n%s" % (i, res.stdout[-3000:]))
        for v in common.tlc_values(res, "VERDICT"):
            verdicts[v["id"]] = v
        states += res.distinct
        trans += res.states_generated
    for p in paths:
        try:
            os.remove(p)
        except OSError:
            pass
    missing = [t["id"] for t in traces if t["id"] not in verdicts]
    if missing:
        raise common.ToolError("no verdict for %d traces" % len(missing))
    # a corrupted copy says something only when the trace it was made from is itself accepted (the copy of a trace that
    # the specification rejects -- a violation reported by the caller -- may happen to be well-formed)
    accepted = [t["id"] for t in selftest if verdicts[t["id"]]["ok"] and verdicts[t["base"]]["ok"]]
    if accepted:
        with open(os.path.join(common.WORK, "selftest_accepted.json"), "w") as f:
            json.dump([t for t in selftest if t["id"] in accepted] + [t for t in traces if t["id"] in [x["base"] for x in selftest if x["id"] in accepted]], f)
        raise common.ToolError("binding self-test: corrupted traces were accepted by Trace_KotoVm.tla: %s" % accepted)
    for t in selftest:
        del verdicts[t["id"]]
    return verdicts, {"states": states, "transitions": trans, "corrupted_traces_rejected": len(selftest)}
