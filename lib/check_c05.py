"""C05 — accepted programs compile to well-formed code; limits are reported; compilation is deterministic.
ChunkCfg.tla: TLC explores every path (incl. exceptional edges) of the control-flow graph of real compiled chunks."""
import json, os, random
from concurrent.futures import ThreadPoolExecutor
import common, corpus, kast, gen_core, gen_calls, gen_match, gen_errors, vmtrace

PROP = "C05"


def prepare(chunk):
    """Add the ip index and the function roots to a decoded chunk record."""
    ins = chunk["ins"]
    nbytes = chunk["nbytes"]
    at = [0] * (nbytes + 1)
    for k, i in enumerate(ins):
        at[i["ip"]] = k + 1
    roots = []
    # main body: from 0 to the end; functions: body [nx, tg)
    def regs_at(ip):
        k = at[ip] if ip < len(at) else 0
        if k and ins[k - 1]["cl"] == "frame":
            return ins[k - 1]["n"]
        return 0
    roots.append({"start": 0, "end": nbytes, "regs": regs_at(0)})
    for i in ins:
        if i["cl"] == "fn":
            roots.append({"start": i["nx"], "end": i["tg"], "regs": regs_at(i["nx"])})
    return {"id": chunk["id"], "ins": ins, "at": at, "roots": roots, "ckinds": chunk["ckinds"]}


def explore(chunks, tag, emit=True, shards=8, timeout=1200):
    """Run ChunkCfg on prepared chunks. Returns (violations list, points, stats)."""
    chunks = [c for c in chunks if c["ins"]]
    if not chunks:
        return [], [], {"states": 0, "transitions": 0}
    shards = max(1, min(shards, len(chunks) // 4 or 1))
    parts = [chunks[i::shards] for i in range(shards)]
    paths = []
    for i, part in enumerate(parts):
        p = os.path.join(common.WORK, "chunks_%s_%d_%d.ndjson" % (tag, os.getpid(), i))
        with open(p, "w") as f:
            for c in part:
                f.write(json.dumps(c) + "\n")
        paths.append(p)

    def one(i):
        return common.run_tlc("ChunkCfg", "ChunkCfg_emit.cfg" if emit else "ChunkCfg.cfg", workers=2,
                              env={"CHUNKS": paths[i]}, timeout=timeout, coverage=False, tag="%s_cfg%d" % (tag, i), xmx="3g")

    with ThreadPoolExecutor(shards) as ex:
        results = list(ex.map(one, range(shards)))
    viol, points = [], []
    states = trans = 0
    for i, res in enumerate(results):
        states += res.distinct
        trans += res.states_generated
        points += common.tlc_values(res, "PT")
        if res.rc != 0:
            if res.invariant_violated:
                # the violating state is printed in the error trace: find chunk index and ip
                import re
                m = re.findall(r"p = \[([^\]]*)\]", res.stdout.replace("\n", " "))
                last = m[-1] if m else ""
                cm = re.search(r"c \|-> (\d+)", last)
                ipm = re.search(r"ip \|-> (\d+)", last)
                badm = re.search(r'bad \|-> "([^"]*)"', last)
                cid = parts[i][int(cm.group(1)) - 1]["id"] if cm else "?"
                viol.append({"chunk": cid, "invariant": res.invariant_violated, "ip": int(ipm.group(1)) if ipm else -1,
                             "detail": badm.group(1) if badm else ""})
            else:
                raise common.ToolError("ChunkCfg failed on shard %d:\n%s" % (i, res.stdout[-3000:]))
    for p in paths:
        try:
            os.remove(p)
        except OSError:
            pass
    return viol, points, {"states": states, "transitions": trans}


def join_consistency(points):
    """Same stack shape at every join: all abstract points with the same (chunk, function, ip) must agree."""
    seen = {}
    bad = []
    for pt in points:
        key = (pt["c"], pt["f"], pt["ip"])
        shape = (pt["q"], pt["s"], tuple(pt["tries"]))
        if key in seen and seen[key] != shape:
            bad.append({"chunk": pt["c"], "ip": pt["ip"], "shapes": [seen[key], shape]})
        seen.setdefault(key, shape)
    return bad, len(seen)


def scale_programs(quick=True):
    """Programs with a known result whose size parameter sweeps across the encoding limits."""
    out = []
    for n in (1, 100, 200, 250, 253, 254, 255, 256, 257, 300):
        # many locals
        src = "".join("v%d = %d\n" % (i, i) for i in range(n)) + "v0 + v%d\n" % (n - 1)
        out.append(("locals%d" % n, src, str(n - 1)))
    for n in (1, 50, 200, 250, 252, 253, 254, 255, 256, 260):
        # many call arguments
        src = "f = |xs...| size xs\nf(%s)\n" % ", ".join(str(i) for i in range(n))
        out.append(("args%d" % n, src, str(n)))
    for n in (1, 100, 250, 254, 255, 256, 300):
        # many list elements in one literal
        src = "x = [%s]\nsize x\n" % ", ".join(str(i) for i in range(n))
        out.append(("elems%d" % n, src, str(n)))
    for n in (10, 1000, 5000, 8000, 10000, 11000, 13000, 16000, 22000):
        # long loop body: backward jump distance around 65535 bytes (about 6 bytes per statement)
        body = "".join("  x = x + 1\n" for _ in range(n))
        src = "x = 0\nfor i in 0..2\n" + body + "x\n"
        out.append(("loopbody%d" % n, src, str(2 * n)))
    for n in (10, 5000, 10000, 10900, 11000, 13000, 16000, 22000):
        # `loop` whose only exit is a break at the end of the body: short forward jump, long backward jump
        body = "".join("  x = x + 1\n" for _ in range(n))
        src = "x = 0\nloop\n" + body + "  if x >= %d\n    break\nx\n" % (2 * n)
        out.append(("loopback%d" % n, src, str(2 * n)))
    for n in (10, 5000, 10000, 11000, 13000, 16000):
        # long if body: forward jump distance
        body = "".join("  x = x + 1\n" for _ in range(n))
        src = "x = 0\nif x == 0\n" + body + "x\n"
        out.append(("ifbody%d" % n, src, str(n)))
    # byte-exact sweep across the 16-bit jump distance: fillers of 3 bytes (`x = 7`) and 2 bytes (`x = 0`) give every body
    # size k, so every distance in the window occurs, for backward jumps (loop, for, while, continue) and forward ones (if)
    def filler(k):
        pad = {0: 0, 2: 1, 1: 2}[k % 3]
        return ["  x = 0"] * pad + ["  x = 7"] * ((k - 2 * pad) // 3)
    for k in range(65505, 65541) if quick else range(65470, 65560):
        out.append(("jloop%d" % k, "\n".join(["i = 0", "x = 0", "loop", "  i += 1", "  if i > 3", "    break"] + filler(k) + ["i"]) + "\n", "4"))
        out.append(("jfor%d" % k, "\n".join(["n = 0", "x = 0", "for i in 0..4", "  n += 1"] + filler(k) + ["n"]) + "\n", "4"))
        out.append(("jwhile%d" % k, "\n".join(["i = 0", "x = 0", "while i < 4", "  i += 1"] + filler(k) + ["i"]) + "\n", "4"))
        out.append(("jif%d" % k, "\n".join(["t = true", "x = 0", "if t"] + filler(k) + ["x"]) + "\n", "7"))
        if not quick:
            out.append(("jcont%d" % k, "\n".join(["n = 0", "x = 0", "for i in 0..4", "  n += 1"] + filler(k) + ["  if x == 7", "    continue", "  n = 100", "n"]) + "\n", "4"))
            out.append(("juntil%d" % k, "\n".join(["i = 0", "x = 0", "until i >= 4", "  i += 1"] + filler(k) + ["i"]) + "\n", "4"))
    for n in (1, 50, 200, 250, 256):
        # many captures
        src = "".join("c%d = %d\n" % (i, i) for i in range(n)) + "f = || " + " + ".join("c%d" % i for i in range(n)) + "\nf()\n"
        out.append(("captures%d" % n, src, str(n * (n - 1) // 2)))
    for n in (1, 20, 60, 120, 130, 200):
        # deep expression nesting: temporaries
        src = "x = 1\n" + "(" * n + "x" + " + 1)" * n + "\n"
        out.append(("nest%d" % n, src, str(n + 1)))
    return out


def run(tier, seed):
    rep = common.Report(PROP, tier, "model_checking", seed)
    rng = random.Random(seed)
    quick = tier == "quick"
    texts = []          # (name, src)
    for s in corpus.sources():
        texts.append(("corpus:" + s["name"], s["src"]))
    g1, g2, ge = gen_core.Gen(rng), gen_calls.CallGen(rng), gen_errors.ErrGen(rng)
    ngen = 150 if quick else 3000
    for i in range(ngen):
        for j, a in enumerate((g1.program(), g2.program(), gen_calls.generator_program(rng),
                               gen_match.match_random(rng, 1)[0], ge.program())):
            texts.append(("gen%d_%d" % (i, j), kast.render(kast.annotate_free(a), kast.Layout(random.Random(rng.getrandbits(32)), True))))
    # interpolated strings whose value is discarded or used, with every kind of placeholder expression: the string builder
    # instructions are balanced whether or not the compiler needs the string's value
    PH = ["x", "g()", "debug x", "export q = 1", "export g()", "x = 2", "x += 1", "if x then 1 else 2", "[1, 2]", "'n {x}'", "x?.y", "-x", "not x",
          "g().zz", "(1, 2)[0]", "|a| a", "match x\n    1 then 2", "x and 1", "x or g()", "1 < x < 3", "size [x]", "x -> g", "{a: x}", "throw 'no'", "koto.type x",
          "debug x, x", "x, 2", "return 3", "yield 4", "import koto", "try g() catch e then 0" if False else "g() or return 1"]
    TPL = ["x = 1\ng = || {zz: 9}\n'{%s} t'\nprint 'end'\n",
           "x = 1\ng = || {zz: 9}\nf = |n|\n  '{%s} inner'\n  n\nprint 'A{f 1}B'\n",
           "x = 1\ng = || {zz: 9}\nfor i in 0..2\n  '{%s} loop'\nprint 'end'\n",
           "x = 1\ng = || {zz: 9}\nif x == 1\n  '{%s} a'\nelse\n  'b {%s}'\nprint 'end'\n",
           "x = 1\ng = || {zz: 9}\nprint '{%s} used'\n",
           "x = 1\ng = || {zz: 9}\ny = ['{%s} e', 2]\n'{%s}{x}'\nprint y\n",
           "x = 1\ng = || {zz: 9}\nf = ||\n  '{%s}'\n  'last {%s}'\nprint f()\n"]
    for pi, ph in enumerate(PH):
        for ti, t in enumerate(TPL):
            texts.append(("dstr:%d:%d" % (pi, ti), t.replace("%s", ph)))
    if not quick:
        for s in corpus.sources():
            for k, v in enumerate(corpus.token_neighbourhood(s["src"], rng, 12)):
                texts.append(("mut:%s:%d" % (s["name"], k), v))
    scale = scale_programs(quick)
    for n, src, _ in scale:
        texts.append(("scale:" + n, src))
    # compile-only scale programs (they cannot run: the modules do not exist): many import items, with the value used
    for n in (2, 100, 127, 128, 129, 200):
        texts.append(("scale:imports%d" % n, "x = from some_module import %s\nx\n" % ", ".join("i%d" % i for i in range(n))))
    jobs = [{"id": n, "src": s} for n, s in texts]
    res = common.kv_parallel("chunk", jobs, per_job_timeout=60)
    # determinism: compile everything again, in other processes and in another order
    order = list(range(len(jobs)))
    rng.shuffle(order)
    res2 = common.kv_parallel("chunk", [jobs[i] for i in order], shards=5, per_job_timeout=60)
    again = {jobs[i]["id"]: r for i, r in zip(order, res2)}
    compiled, rejected = [], 0
    for job, r in zip(jobs, res):
        st = r.get("status")
        if st in ("panic", "abort", "hang"):
            rep.violation("compile_%s" % job["id"], {"property": PROP, "why": "compiler %s: %s" % (st, (r.get("err_msg") or "")[:200]), "source": job["src"]})
            continue
        r2 = again[job["id"]]
        if r2.get("status") != st or (st == "ok" and r2.get("hash") != r.get("hash")):
            rep.violation("nondet_%s" % job["id"], {"property": PROP, "why": "compiling the same text twice gave different results (%s/%s vs %s/%s)" % (st, r.get("hash"), r2.get("status"), r2.get("hash")), "source": job["src"]})
        if st == "ok":
            compiled.append(prepare(r))
        else:
            rejected += 1
    viol, points, st = explore(compiled, "c05")
    srcs = dict(texts)
    rb = [f for f in rep.known if f["id"] == "RB1"]
    for v in viol:
        if rb and v["invariant"] == "BalancedAtReturn" and any(c["source"] == srcs.get(v["chunk"], "") for c in rb[0]["inputs"]):
            rep.known_finding("RB1", "%s: a return inside a string placeholder is compiled with the string builder still open" % v["chunk"])
            continue
        rep.violation("cfg_%s" % v["chunk"], {"property": PROP, "why": "ChunkCfg invariant %s violated at ip %s %s" % (v["invariant"], v["ip"], v["detail"]),
                                              "source": srcs.get(v["chunk"], "")})
    bad, npoints = join_consistency(points)
    for b in bad[:20]:
        rep.violation("join_%s_%d" % (b["chunk"], b["ip"]), {"property": PROP, "why": "ip %d is reached with different builder/try stack shapes %s" % (b["ip"], b["shapes"]),
                                                              "source": srcs.get(b["chunk"], "")})
    # limits: compile error, or well-formed code that computes the known result
    runs = common.kv_parallel("run", [{"id": n, "src": src, "limit_ms": 20000} for n, src, _ in scale], shards=12, per_job_timeout=60)
    scale_ok = scale_rej = 0
    for (n, src, want), r in zip(scale, runs):
        if r.get("status") == "compile_error":
            scale_rej += 1
            continue
        kf = [f for f in rep.known if f["id"] == "RL1"]
        if (kf and r.get("status") == "runtime_error" and "Overflow of the current frame's register stack" in (r.get("err_msg") or "")
                and any(c["case"] == n and c["source"] == src for c in kf[0]["inputs"])):
            rep.known_finding("RL1", "%s: register limit reported at run time instead of by the compiler" % n)
            continue
        if r.get("status") != "ok" or r.get("value") != want:
            rep.violation("scale_%s" % n, {"property": PROP, "why": "size-scaled program neither rejected by the compiler nor computing %s: %s %s" % (want, r.get("status"), (r.get("value") or r.get("err_msg") or "")[:200]),
                                           "source": src[:2000], "scale_name": n, "want": want})
        else:
            scale_ok += 1
    # run time: no internal fault in the corpus' executions (trace validation against KotoVm.tla)
    runnable = [s for s in corpus.sources(run_only=True)]
    tj = [{"id": "run:" + s["name"], "src": s["src"], "limit_ms": 5000, "run_tests": True, **({"path": s["path"]} if s["path"] else {})} for s in runnable]
    tr = vmtrace.record(tj, per_job_timeout=60)
    traces = [{"id": r["id"], "events": vmtrace.with_observe(r)} for r in tr if r.get("events")]
    verdicts, tst = vmtrace.validate(traces, tag="c05")
    for t in traces:
        v = verdicts[t["id"]]
        if not v["ok"]:
            rep.violation("trace_%s" % t["id"], {"property": PROP, "why": "corpus execution rejected by KotoVm.tla at event %d: %s" % (v["at"], v["why"]),
                                                 "source": [j["src"] for j in tj if j["id"] == t["id"]][0]})
    for j, r in zip(tj, tr):
        if r.get("status") in ("panic", "abort", "hang") or r.get("err_class") == "internal":
            rep.violation("run_%s" % j["id"], {"property": PROP, "why": "corpus execution: %s %s" % (r.get("status"), (r.get("err_msg") or "")[:200]), "source": j["src"]})
    rep.coverage = {
        "states": st["states"] + tst["states"], "transitions": st["transitions"] + tst["transitions"],
        "traces_validated_against_impl": len(compiled) + len(traces),
        "samples": [{"chunk": compiled[0]["id"], "instructions": len(compiled[0]["ins"]), "functions": len(compiled[0]["roots"])},
                    {"scale": scale[3][0], "source_head": scale[3][1][:120]}],
        "evaluations": len(jobs), "distinct_nontrivial": len(compiled),
        "rule": "every chunk compiled from: the corpus (tests, benches, documentation blocks: %d texts), seeded programs of all KotoCore "
                "families in random layouts, size-scaled programs around each encoding limit (locals, arguments, elements, jump "
                "distance, captures, temporaries)%s; ChunkCfg explores all abstract paths of every function incl. exceptional "
                "edges; determinism: every text compiled twice (different process, different order)" % (len(corpus.sources()), "" if quick else ", and the corpus' single-token delete/duplicate/swap neighbourhood"),
        "texts": len(jobs), "rejected_by_compiler": rejected, "abstract_points": npoints,
        "instructions": sum(len(c["ins"]) for c in compiled), "functions": sum(len(c["roots"]) for c in compiled),
        "scale_programs": len(scale), "scale_ok": scale_ok, "scale_rejected": scale_rej,
        "corpus_executions_validated": len(traces), "hook_events_validated": sum(len(t["events"]) for t in traces),
        "exhaustive": False,
    }
    rep.assumptions = ["koto_bytecode::InstructionReader is the definition of the instruction format",
                       "which instructions can raise an error is over-approximated (everything not in ChunkCfg!Pure)"]
    return rep.finish()


def replay(path):
    d = json.load(open(path))
    if "scale_name" in d:
        # the source is regenerated from its name (the replay file holds its first lines only)
        src = [x for x in scale_programs(False) + scale_programs(True) if x[0] == d["scale_name"]][0][1]
        r = common.kv("run", [{"id": "replay", "src": src, "limit_ms": 20000}], per_job_timeout=60)[0]
        print(d["why"]); print("now:", r.get("status"), r.get("value"))
        if r.get("status") != "compile_error" and (r.get("status") != "ok" or r.get("value") != d["want"]):
            print("VIOLATION property=%s replay=%s" % (PROP, path)); return 1
        return 0
    r = common.kv("chunk", [{"id": "replay", "src": d["source"]}])[0]
    if r.get("status") != "ok":
        print(r.get("status"), r.get("err_msg")); return 0
    viol, points, _ = explore([prepare(r)], "c05r", shards=1)
    bad, _ = join_consistency(points)
    print(d["why"]); print(viol, bad[:3])
    if viol or bad:
        print("VIOLATION property=%s replay=%s" % (PROP, path)); return 1
    return 0
