"""C01 — core evaluation: KotoCore machine as oracle, replayed into the implementation."""
import json, random, time
import common, kast, gen_core, core_replay

PROP = "C01"


def run(tier, seed):
    rep = common.Report(PROP, tier, "model_checking", seed)
    rng = random.Random(seed)
    n_random = 600 if tier == "quick" else 12000
    progs = []
    # bounded-exhaustive operator trees
    for i, ast in enumerate(gen_core.exhaustive_depth1()):
        progs.append({"id": "x1_%d" % i, "ast": ast})
    pairs = list(gen_core.exhaustive_pairs())
    if tier == "quick":
        rng.shuffle(pairs)
        pairs = pairs[:600]
    for i, ast in enumerate(pairs):
        progs.append({"id": "x2_%d" % i, "ast": ast})
    for i, ast in enumerate(gen_core.reassign_matrix()):
        progs.append({"id": "ra_%d" % i, "ast": ast})
    n_exh = len(progs)
    g = gen_core.Gen(rng)
    for i in range(n_random):
        progs.append({"id": "r%d" % i, "ast": g.program()})
    preds, st = core_replay.predict(progs, tag="c01", shards=8)
    # exhaustive families: canonical + precedence-minimal layouts at top level only; random: all contexts
    exh = [p for p in progs if not p["id"].startswith("r")]
    rnd = [p for p in progs if p["id"].startswith("r")]
    s1 = core_replay.replay(exh, preds, rep, rng, n_layouts=2, contexts=("top", "fn0"))
    s2 = core_replay.replay(rnd, preds, rep, rng, n_layouts=1 if tier == "quick" else 3,
                            contexts=("top", "fn0", "fn3", "fn40") if tier == "thorough" else ("top", "fn0", "fn3"))
    decided = s1["decided"] + s2["decided"]
    sample = [kast.render(p["ast"]) for p in rnd[:2]] + [kast.render(p["ast"]) for p in exh[:3]]
    rep.coverage = {
        "states": st["states"], "transitions": st["transitions"],
        "traces_validated_against_impl": s1["runs"] + s2["runs"],
        "samples": sample,
        "evaluations": s1["runs"] + s2["runs"],
        "distinct_nontrivial": decided,
        "rule": "programs are syntax trees: all binary/unary operator applications over a 12-leaf pool, the "
                "operator-pair precedence matrix over numeric leaves, re-assignment of a variable from every shape of expression that reads it, and seeded random statement programs; "
                "a program counts when the TLA+ machine decides it (ok/err), i.e. it is not discarded as "
                "unspecified by the guide or out of the exact arithmetic window",
        "programs": len(progs), "exhaustive_programs": n_exh, "random_programs": n_random,
        "discarded_unspecified": s1["skipped"]["unspec"] + s2["skipped"]["unspec"],
        "discarded_fuel": s1["skipped"]["fuel"] + s2["skipped"]["fuel"],
        "unspec_reasons": {k: s1["unspec_reasons"].get(k, 0) + s2["unspec_reasons"].get(k, 0)
                           for k in set(s1["unspec_reasons"]) | set(s2["unspec_reasons"])},
        "exhaustive": False,
    }
    rep.assumptions = ["KotoCore.tla encodes docs/language_guide.md; programs the guide does not decide are discarded",
                       "kast.render is trusted to print the syntax tree it is given (canonical layout is fully parenthesised)"]
    return rep.finish()


def replay(path):
    d = json.load(open(path))
    res = common.kv("run", [{"id": "replay", "src": d["source"], "limit_ms": 5000}])
    why = core_replay.compare(d["predicted"], res[0])
    print(d["source"])
    print("predicted:", d["predicted"])
    print("actual:", {k: res[0].get(k) for k in ("status", "value", "stdout", "err_head")})
    if why:
        print("VIOLATION property=%s replay=%s" % (PROP, path))
        return 1
    return 0
