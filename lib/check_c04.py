"""C04 — errors, unwinding, finally: source level (KotoCore machine as oracle, replayed)."""
import random
import common, core_replay, gen_errors, kast, vmtrace

PROP = "C04"
ASSUME = ["KotoCore.tla Unwind/Return encode docs/language_guide.md (Error Handling) and the property's statement "
          "(finally on every path, finally's value wins); the text bound by catch for a runtime error is unspecified",
          "known finding F28 is modelled as a named deviation rule; programs that use it are counted in the evidence"]


def run(tier, seed):
    rng = random.Random(seed)
    quick = tier == "quick"
    fams = [("er", gen_errors.programs(rng, 700 if quick else 20000), 1, 3, None)]
    rep, preds, progs = core_replay.family_check(
        PROP, tier, seed, fams,
        rule="seeded programs with try/catch/finally nests (depth <= 3, typed catches) and fault sites planted at "
             "every position class: throw / runtime errors (bad index, type mismatch, failed assertion, wrong "
             "argument count) at call depth 0..3, inside each/fold functors, generator bodies consumed by "
             "for/to_tuple/next, string interpolation, list/map literals, catch blocks; exits by "
             "return/break/continue; counter and list state printed in every handler. Counted: programs decided "
             "by the machine.",
        assumptions=ASSUME, dev=("F28",))
    core_replay.pinned_known_findings(rep, PROP)
    # VM level: the hook traces of the same programs are validated against KotoVm.tla
    sample = progs[: (400 if quick else 4000)]
    jobs = [{"id": p["id"], "src": kast.render(p["ast"]), "limit_ms": 5000} for p in sample]
    res = vmtrace.record(jobs)
    traces = [{"id": r["id"], "events": vmtrace.with_observe(r)} for r in res if r.get("events")]
    verdicts, tst = vmtrace.validate(traces, tag="c04")
    for t, job in zip(traces, jobs):
        v = verdicts.get(t["id"])
        if v and not v["ok"]:
            rep.violation("trace_%s" % t["id"], {"property": PROP, "why": "VM trace rejected by KotoVm.tla at event %d: %s" % (v["at"], v["why"]),
                                                 "source": [j["src"] for j in jobs if j["id"] == t["id"]][0],
                                                 "events_before": t["events"][max(0, v["at"] - 6): v["at"]]})
    # design level: the operational model of vm.rs (MC_KotoVm.tla) against the same rules, and the bugs it must reject
    import mc_kotovm
    mc = mc_kotovm.run(tier, bugs=("stale_catch", "builders", "reg_leak", "reg_growth"), liveness=False)
    if "design_rejected" in mc:
        rep.violation("design_model", {"property": PROP, "why": "MC_KotoVm.tla: %s" % (mc["design_rejected"],), "tlc": mc.get("tlc")})
    rep.coverage["design_model"] = {k: v for k, v in mc.items() if k != "tlc"}
    rep.coverage["states"] += mc.get("states", 0)
    rep.coverage["vm_traces_validated"] = len(traces)
    rep.coverage["hook_events_validated"] = sum(len(t["events"]) for t in traces)
    rep.coverage["states"] += tst["states"]
    rep.coverage["transitions"] += tst["transitions"]
    rep.coverage["traces_validated_against_impl"] += len(traces)
    return rep.finish()


def replay(path):
    import json
    d = json.load(open(path))
    if "predicted" not in d:
        res = vmtrace.record([{"id": "replay", "src": d["source"], "limit_ms": 5000}])
        ver, _ = vmtrace.validate([{"id": "replay", "events": vmtrace.with_observe(res[0])}], tag="c04r", shards=1)
        print(d["source"]); print(ver["replay"])
        if not ver["replay"]["ok"]:
            print("VIOLATION property=%s replay=%s" % (PROP, path)); return 1
        return 0
    return core_replay.generic_replay(PROP, path)
