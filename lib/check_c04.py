"""C04 — errors, unwinding, finally: source level (KotoCore machine as oracle, replayed)."""
import random
import common, core_replay, gen_errors

PROP = "C04"
ASSUME = ["KotoCore.tla Unwind/Return encode docs/language_guide.md (Error Handling) and the property's statement "
          "(finally on every path, finally's value wins); the text bound by catch for a runtime error is unspecified",
          "known finding F28 is modelled as a named deviation rule; programs that use it are counted in the evidence"]


def run(tier, seed):
    rng = random.Random(seed)
    quick = tier == "quick"
    fams = [("er", gen_errors.programs(rng, 700 if quick else 20000), 1, 3, None)]
    rep, preds, progs = core_replay.family_check(
        PROP, tier, seed, fams,
        rule="seeded programs with try/catch/finally nests (depth <= 3, typed catches) and fault sites planted at "
             "every position class: throw / runtime errors (bad index, type mismatch, failed assertion, wrong "
             "argument count) at call depth 0..3, inside each/fold functors, generator bodies consumed by "
             "for/to_tuple/next, string interpolation, list/map literals, catch blocks; exits by "
             "return/break/continue; counter and list state printed in every handler. Counted: programs decided "
             "by the machine.",
        assumptions=ASSUME, dev=("F28",))
    core_replay.pinned_known_findings(rep, PROP)
    return rep.finish()


def replay(path):
    return core_replay.generic_replay(PROP, path)
