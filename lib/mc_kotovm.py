"""Design-level model checking of the VM control state (spec/MC_KotoVm.tla): an operational model of vm.rs produces hook events in
the order the code emits them; every event goes through KotoVm!Apply.  The faithful model must be accepted in every reachable
state; each switched-on historical bug must be rejected by the rule that names it; with an execution limit the run ends
(TimeoutEventuallyFires), and does not when nested executions stop polling the deadline."""
import re
import common

EXPECT = {
    "stale_catch": ("NoDuplicateTry", "CaughtWithinTry"),
    "timeout_catch": ("TimeoutNeverCaught",),
    "timeout_text": ("TimeoutStaysTimeout",),
    "builders": ("BuildersRestoredAtCatch",),
    "reg_leak": ("Balanced",),
    "reg_growth": ("NoMonotoneGrowth",),
}


def run(tier, bugs=None, liveness=True):
    n = 8 if tier == "quick" else 10
    out = {"max_events": n, "bugs_rejected": {}}
    r = common.run_tlc("MC_KotoVm", "MC_KotoVm.cfg", workers=8, env={"BUG": "", "MAXEVENTS": n, "LIMIT": "1", "LIVE": "0"}, timeout=3000,
                       coverage=False, tag="mckv", xmx="8g")
    if r.rc != 0:
        why = [w for w in re.findall(r'why \|->\s*"([^"]*)"', r.stdout) if w]
        return dict(out, design_rejected=(r.invariant_violated, why[-1] if why else None), tlc=r.stdout[-5000:])
    out["states"] = r.distinct
    for b in [x for x in (bugs if bugs is not None else EXPECT) if x in EXPECT]:
        rb = common.run_tlc("MC_KotoVm", "MC_KotoVm.cfg", workers=1, env={"BUG": b, "MAXEVENTS": 10, "LIMIT": "1", "LIVE": "0"}, timeout=3000,
                            coverage=False, tag="mckv_" + b)
        why = [w for w in re.findall(r'why \|->\s*"([^"]*)"', rb.stdout) if w]
        if rb.invariant_violated != "Accepted" or not why or not any(why[-1].startswith(e) for e in EXPECT[b]):
            raise common.ToolError("MC_KotoVm self-test: bug %s was not rejected by %s (%s, %s)" % (b, EXPECT[b], rb.invariant_violated, why[-1:] ))
        out["bugs_rejected"][b] = why[-1].split(":")[0]
    if bugs is None or "stale_deadline" in bugs:
        rb = common.run_tlc("MC_KotoVm", "MC_KotoVm.cfg", workers=1, env={"BUG": "stale_deadline", "MAXEVENTS": 10, "LIMIT": "1", "LIVE": "0"}, timeout=3000,
                            coverage=False, tag="mckv_stale_deadline")
        if rb.invariant_violated != "RearmedPerRun":
            raise common.ToolError("MC_KotoVm self-test: a deadline that stays armed after a failed run was not rejected by RearmedPerRun (%s)" % rb.invariant_violated)
        out["bugs_rejected"]["stale_deadline"] = "RearmedPerRun"
    if liveness:
        rl = common.run_tlc("MC_KotoVm", "MC_KotoVm_live.cfg", workers=4, env={"BUG": "", "MAXEVENTS": n, "LIMIT": "1", "LIVE": "1"}, timeout=3000,
                            coverage=False, tag="mckv_live")
        if rl.rc != 0:
            return dict(out, liveness_violated=True, tlc=rl.stdout[-5000:])
        rn = common.run_tlc("MC_KotoVm", "MC_KotoVm_live.cfg", workers=4, env={"BUG": "no_deadline", "MAXEVENTS": n, "LIMIT": "1", "LIVE": "1"},
                            timeout=3000, coverage=False, tag="mckv_live_bug")
        if "TimeoutEventuallyFires was violated" not in rn.stdout:
            raise common.ToolError("MC_KotoVm self-test: liveness holds although nested executions do not poll the deadline")
        out["liveness"] = {"TimeoutEventuallyFires": "holds", "states": rl.distinct, "no_deadline_variant": "violated (as it must be)"}
    return out
