#!/usr/bin/env python3
"""mkprompt.py <prop-id> <worktree> <focus...>: fill the seeded-change prompt for a sub-agent."""
import json, sys
pid, wt = sys.argv[1], sys.argv[2]
focus = " ".join(sys.argv[3:]) or "any mechanism the property anchors"
prop = None
for l in open('/verif/properties.jsonl'):
    p = json.loads(l)
    if p['id'] == pid:
        prop = json.dumps({k: p[k] for k in ('id', 'title', 'statement', 'quantifier', 'why_tests_cant', 'anchors')}, indent=1)
t = open('/verif/lib/mutant_prompt.txt').read()
print(t.replace('{WT}', wt).replace('{PROP}', prop).replace('{FOCUS}', focus))
