"""Koto syntax trees (as the JSON the TLA+ machine reads) and their rendering to Koto source text.

The tree is the meaning; Render chooses one of the spellings the language guide declares equivalent
(layout vector). `Layout(None)` is the canonical, fully parenthesised block style.
"""
import random

CONT = "\x01"     # marks continuation lines of a multi-line statement while a program is being rendered

_next_id = [0]


def nid():
    _next_id[0] += 1
    return _next_id[0]


def reset_ids():
    _next_id[0] = 0


# ---- constructors -------------------------------------------------------------------------------
def N(k, **kw):
    d = {"k": k, "id": nid()}
    d.update(kw)
    return d


def Null(): return N("null")
def Bool(v): return N("bool", v=bool(v))
def Int(v): return N("int", v=int(v))
def Flt(n, d): return N("flt", n=int(n), d=int(d))       # n / 2^d
def Str(s): return N("str", v=s)
def IStr(parts): return N("istr", xs=parts)
def Id(n): return N("id", n=n)
def Bin(op, a, b): return N("bin", op=op, a=a, b=b)
def Cmp(ops, xs): return N("cmp", ops=list(ops), xs=list(xs))
def And(a, b): return N("and", a=a, b=b)
def Or(a, b): return N("or", a=a, b=b)
def Not(a): return N("not", a=a)
def Neg(a): return N("neg", a=a)
def Asg(n, e): return N("asg", n=n, e=e)
def OpAsg(n, op, e): return N("opasg", n=n, op=op, e=e)
def MAsg(ns, e): return N("masg", ns=list(ns), e=e)
def IAsg(c, i, e): return N("iasg", c=c, i=i, e=e)
def IOpAsg(c, i, op, e): return N("iopasg", c=c, i=i, op=op, e=e)
def List(xs): return N("list", xs=list(xs))
def Tuple(xs): return N("tuple", xs=list(xs))
def Map(ks, vs, mks=(), mvs=()):
    """mks / mvs: metakeys ("@+", "@r+", "@==", "@type", "@base", "@meta name", ...) and their values"""
    return N("map", ks=list(ks), vs=list(vs), mks=list(mks), mvs=list(mvs))


def Unimpl(): return N("unimpl")
def Range(a, b, inc=False): return N("range", a=a, b=b, inc=bool(inc))
def Idx(c, i): return N("idx", c=c, i=i)
def Dot(c, n): return N("dot", c=c, n=n)
def DAsg(c, n, e): return N("dasg", c=c, n=n, e=e)
def DOpAsg(c, n, op, e): return N("dopasg", c=c, n=n, op=op, e=e)
def Block(xs): return N("block", xs=list(xs))
def Core(f, args): return N("core", f=f, args=list(args))
def MCall(c, m, args): return N("mcall", c=c, m=m, args=list(args))
def App(f, args, form="paren"): return N("app", f=f, args=list(args), form=form)
def Throw(e): return N("throw", e=e)
def Continue(): return N("continue")


def If(cs, bs, e=None):
    return N("if", cs=list(cs), bs=list(bs), has_else=e is not None, e=e if e is not None else Null())


def Switch(cs, bs, e=None):
    return N("switch", cs=list(cs), bs=list(bs), has_else=e is not None, e=e if e is not None else Null())


def While(c, b): return N("while", c=c, b=b)
def Until(c, b): return N("until", c=c, b=b)
def Loop(b): return N("loop", b=b)
def For(vars_, it, b, tys=None):
    return N("for", vars=list(vars_), it=it, b=b, tys=list(tys) if tys else ["" for _ in vars_])


def Break(e=None):
    return N("break", has=e is not None, e=e if e is not None else Null())


def Return(e=None):
    return N("return", has=e is not None, e=e if e is not None else Null())


def PWild(name="_"): return {"p": "wild", "n": name}
def PId(n): return {"p": "id", "n": n}
def PLit(node): return {"p": "lit", "v": node}
def PTyped(n, ty): return {"p": "typed", "n": n, "ty": ty}
def PTup(xs, rest="none", rn=""): return {"p": "tup", "xs": list(xs), "rest": rest, "rn": rn}
def PMap(ks, ns=None): return {"p": "map", "ks": list(ks), "ns": list(ns or ks)}


def pat_names(p, acc=None):
    """Names bound by a pattern."""
    if acc is None:
        acc = []
    k = p["p"]
    if k in ("id", "typed"):
        if not p["n"].startswith("_"):
            acc.append(p["n"])
    elif k == "tup":
        if p["rest"] == "first" and p["rn"]:
            acc.append(p["rn"])
        for x in p["xs"]:
            pat_names(x, acc)
        if p["rest"] == "last" and p["rn"]:
            acc.append(p["rn"])
    elif k == "map":
        acc += [n for n in p["ns"] if not n.startswith("_")]
    return acc


def Param(n, kind="pos", ty="", pat=None):
    """kind: pos | def | var | pat (unpacking pattern in `pat`)"""
    return {"n": n, "kind": kind, "ty": ty, "pat": pat if pat is not None else PWild()}


def Fn(params, body, defaults=(), free=(), gen=False, ret=""):
    """params: list of Param; defaults: expressions for the 'def' params in order."""
    return N("fn", params=list(params), defaults=list(defaults), body=body, free=sorted(set(free)), gen=bool(gen),
             ret=ret)


def Yield(e): return N("yield", e=e)
def Spread(e): return N("spread", e=e)
def Let(n, ty, e): return N("let", n=n, ty=ty, e=e)
def MLet(ns, tys, e, bare=False): return N("mlet", ns=list(ns), tys=list(tys), e=e, bare=bare)


def Arm(pats, body, guard=None):
    return {"pats": list(pats), "has_guard": guard is not None, "guard": guard if guard is not None else Null(),
            "b": body}


def Match(subj, arms, e=None):
    return N("match", subj=subj, arms=list(arms), has_else=e is not None, e=e if e is not None else Null())


def Try(b, catches, fin=None):
    """catches: list of (name, type_or_empty, block)"""
    cs = [{"n": n, "ty": ty, "b": blk} for (n, ty, blk) in catches]
    return N("try", b=b, catches=cs, has_fin=fin is not None, fin=fin if fin is not None else Null())


# ---- free variables -------------------------------------------------------------------------------
def children(n):
    k = n["k"]
    if k in ("bin", "and", "or"):
        return [n["a"], n["b"]]
    if k in ("neg", "not"):
        return [n["a"]]
    if k in ("list", "tuple", "istr", "block", "cmp"):
        return n["xs"]
    if k == "map":
        return n["vs"] + n.get("mvs", [])
    if k == "range":
        return [n["a"], n["b"]]
    if k == "idx":
        return [n["c"], n["i"]]
    if k in ("asg", "opasg", "throw", "masg", "yield", "spread", "let", "mlet"):
        return [n["e"]]
    if k == "match":
        r = [n["subj"]]
        for a in n["arms"]:
            if a["has_guard"]:
                r.append(a["guard"])
            r.append(a["b"])
        if n["has_else"]:
            r.append(n["e"])
        return r
    if k in ("iasg", "iopasg"):
        return [n["c"], n["i"], n["e"]]
    if k == "dot":
        return [n["c"]]
    if k in ("dasg", "dopasg"):
        return [n["c"], n["e"]]
    if k == "core":
        return n["args"]
    if k == "mcall":
        return [n["c"]] + n["args"]
    if k == "app":
        return [n["f"]] + n["args"]
    if k in ("if", "switch"):
        r = []
        for c, b in zip(n["cs"], n["bs"]):
            r += [c, b]
        if n["has_else"]:
            r.append(n["e"])
        return r
    if k in ("while", "until"):
        return [n["c"], n["b"]]
    if k == "loop":
        return [n["b"]]
    if k == "for":
        return [n["it"], n["b"]]
    if k in ("break", "return"):
        return [n["e"]] if n["has"] else []
    if k == "fn":
        return list(n["defaults"]) + [n["body"]]
    if k == "try":
        r = [n["b"]] + [c["b"] for c in n["catches"]]
        if n["has_fin"]:
            r.append(n["fin"])
        return r
    return []


def ids_read(n, acc=None):
    """All identifiers read anywhere inside n (including nested functions)."""
    if acc is None:
        acc = set()
    if n["k"] == "id":
        acc.add(n["n"])
    if n["k"] == "opasg":
        acc.add(n["n"])
    for c in children(n):
        ids_read(c, acc)
    return acc


def annotate_free(n):
    """Set `free` of every function literal to (a superset of) its free identifiers: everything read in
    its body and defaults, minus its own parameters. The machine captures free /\\ DOMAIN env."""
    for c in children(n):
        annotate_free(c)
    if n["k"] == "fn":
        acc = set()
        ids_read(n["body"], acc)
        for d in n["defaults"]:
            ids_read(d, acc)
        bound = set()
        for p in n["params"]:
            if p["kind"] == "pat":
                bound |= set(pat_names(p["pat"]))
            else:
                bound.add(p["n"])
        n["free"] = sorted((acc - bound) | set(n.get("free", [])))
    return n


def count_nodes(n):
    return 1 + sum(count_nodes(c) for c in children(n))


# ---- rendering -------------------------------------------------------------------------------------
PREC = {"or": 5, "and": 7, "==": 9, "!=": 9, "<": 11, "<=": 11, ">": 11, ">=": 11,
        "+": 13, "-": 13, "*": 15, "/": 15, "%": 15, "^": 17}


class Layout:
    """Source of layout choices. rng=None => canonical layout (every choice 0)."""

    def __init__(self, rng=None, comments=False, chains=True):
        self.rng = rng
        self.comments = comments
        self.chains = chains        # may a call chain be broken across lines (off where lines are compared, C12)
        self.strings = True         # may a string literal be continued on the next line with a backslash
        self.ncomments = 0
        self.choices = 0

    def pick(self, n=2, weight0=0.5):
        self.choices += 1
        if self.rng is None:
            return 0
        if self.rng.random() < weight0:
            return 0
        return self.rng.randrange(1, n) if n > 1 else 0

    def comment(self):
        self.ncomments += 1
        return "c%d" % self.ncomments


def qstr(s):
    return "'" + s.replace("\\", "\\\\").replace("'", "\\'").replace("{", "\\{").replace("\n", "\\n") + "'"


CORE_NAMES = {"deep_copy": "koto.deep_copy"}     # core functions that are not in the prelude

ATOMS = {"null", "bool", "int", "flt", "str", "id", "list", "tuple", "map", "istr", "idx", "dot", "core", "mcall",
         "app"}


def flt_text(n, d):
    from fractions import Fraction
    f = Fraction(n, 2 ** d)
    s = "-" if f < 0 else ""
    f = abs(f)
    ip = f.numerator // f.denominator
    rem = f - ip
    digs = ""
    while rem != 0:
        rem *= 10
        dg = rem.numerator // rem.denominator
        digs += str(dg)
        rem -= dg
    return s + str(ip) + "." + (digs or "0")


class Renderer:
    def __init__(self, layout=None, ind="  "):
        self.L = layout or Layout()
        self.ind = ind

    # -- expressions (inline) ----------------------------------------------------------------------
    def elem(self, x):
        """An element of a list or tuple (inside brackets): a call of a named function with one simple argument may be
        written without parentheses there -- inside brackets a comma belongs to the brackets, so such a call takes exactly
        one argument ([f x, y] is [f(x), y]; parser: `inside_braces`) -- also after `not`."""
        def bare(a):
            return (a["k"] == "app" and a["f"]["k"] == "id" and len(a["args"]) == 1 and self._simple_free_arg(a["args"][0])
                    and a["args"][0]["k"] not in ("spread", "list", "tuple"))
        if self.L.rng is not None:
            if bare(x) and self.L.pick(2, 0.7) == 1:
                return "%s %s" % (x["f"]["n"], self.arg(x["args"][0]))
            if x["k"] == "not" and bare(x["a"]) and self.L.pick(2, 0.6) == 1:
                return "not %s %s" % (x["a"]["f"]["n"], self.arg(x["a"]["args"][0]))
        return self.paren(x)

    def paren(self, n):
        s = self.expr(n)
        k = n["k"]
        if k in ("null", "bool", "str", "id", "list", "tuple", "map", "istr", "range"):
            return s
        if k == "int":
            return s if n["v"] >= 0 else "(" + s + ")"
        if k == "flt":
            return s if n["n"] >= 0 else "(" + s + ")"
        if k in ("idx", "dot", "core", "mcall", "app"):
            return s
        return "(" + s + ")"

    def operand(self, n, parent_prec, right_side):
        """Operand of a binary operator: minimal or redundant parentheses (layout choice)."""
        k = n["k"]
        if k == "bin" and self.L.pick(2, 0.6) == 1:
            p = PREC[n["op"]]
            # conventional precedence; left-associative arithmetic; nested ^ always parenthesised
            if n["op"] != "^" and (p > parent_prec or (p == parent_prec and not right_side and p in (13, 15))):
                return self.expr(n)
        return self.paren(n)

    def expr(self, n):
        k = n["k"]
        if k == "null":
            return "null"
        if k == "bool":
            return "true" if n["v"] else "false"
        if k == "int":
            return str(n["v"])
        if k == "flt":
            return flt_text(n["n"], n["d"])
        if k == "str":
            q = qstr(n["v"])
            # guide (Continuing a Long Line): a backslash at the end of a line inside a string skips the line break and the
            # leading whitespace of the next line.  Used after a space inside the text; the continuation line is marked CONT.
            if self.L.rng is not None and self.L.strings and " " in n["v"][:-1] and not n["v"].startswith("boom") and self.L.pick(2, 0.8) == 1:
                i = q.index(" ", 1)
                if i < len(q) - 2:
                    return q[:i + 1] + "\\\n" + CONT + "      " + q[i + 1:]
            return q
        if k == "istr":
            out = "'"
            for p in n["xs"]:
                if p["k"] == "str":
                    out += p["v"].replace("\\", "\\\\").replace("'", "\\'").replace("{", "\\{")
                else:
                    out += "{" + self.expr(p) + "}"
            return out + "'"
        if k == "id":
            return n["n"]
        if k == "bin":
            p = PREC[n["op"]]
            return "%s %s %s" % (self.operand(n["a"], p, False), n["op"], self.operand(n["b"], p, True))
        if k == "cmp":
            parts = [self.paren(n["xs"][0])]
            for op, x in zip(n["ops"], n["xs"][1:]):
                parts += [op, self.paren(x)]
            return " ".join(parts)
        if k in ("and", "or"):
            return "%s %s %s" % (self.paren(n["a"]), k, self.paren(n["b"]))
        if k == "not":
            return "not " + self.paren(n["a"])
        if k == "neg":
            return "-" + self.paren_strict(n["a"])
        if k == "list":
            return "[" + ", ".join(self.elem(x) for x in n["xs"]) + "]"
        if k == "tuple":
            xs = n["xs"]
            if len(xs) == 0:
                return "()"
            if len(xs) == 1:
                return "(" + self.paren(xs[0]) + ",)"
            return "(" + ", ".join(self.elem(x) for x in xs) + ")"
        if k == "map":
            ents = ["%s: %s" % (kk, self.paren(v)) for kk, v in zip(n["ks"], n["vs"])]
            ents += ["%s: %s" % (kk, self.paren(v)) for kk, v in zip(n.get("mks", []), n.get("mvs", []))]
            return "{" + ", ".join(ents) + "}"
        if k == "unimpl":
            return "koto.unimplemented"
        if k == "range":
            return "(%s%s%s)" % (self.paren_strict(n["a"]), "..=" if n["inc"] else "..", self.paren_strict(n["b"]))
        if k == "idx":
            i = n["i"]
            if i["k"] == "range":
                inner = "%s%s%s" % (self.paren_strict(i["a"]), "..=" if i["inc"] else "..", self.paren_strict(i["b"]))
            else:
                inner = self.expr(i)
            return "%s[%s]" % (self.recv(n["c"]), inner)
        if k == "dot":
            return "%s.%s" % (self.recv(n["c"]), n["n"])
        if k == "core":
            return "%s(%s)" % (CORE_NAMES.get(n["f"], n["f"]), ", ".join(self.paren(a) for a in n["args"]))
        if k == "mcall":
            return "%s.%s(%s)" % (self.recv(n["c"]), n["m"], ", ".join(self.paren(a) for a in n["args"]))
        if k == "app":
            # arguments inside call parentheses are inside brackets too (see elem)
            return "%s(%s)" % (self.recv(n["f"]), ", ".join(self.expr(a) if a["k"] == "spread" else self.elem(a) for a in n["args"]))
        if k == "asg":
            return "%s = %s" % (n["n"], self.paren(n["e"]))
        if k == "opasg":
            return "%s %s= %s" % (n["n"], n["op"], self.paren(n["e"]))
        if k == "iasg":
            return "%s[%s] = %s" % (self.recv(n["c"]), self.expr(n["i"]), self.paren(n["e"]))
        if k == "iopasg":
            return "%s[%s] %s= %s" % (self.recv(n["c"]), self.expr(n["i"]), n["op"], self.paren(n["e"]))
        if k == "dasg":
            return "%s.%s = %s" % (self.recv(n["c"]), n["n"], self.paren(n["e"]))
        if k == "dopasg":
            return "%s.%s %s= %s" % (self.recv(n["c"]), n["n"], n["op"], self.paren(n["e"]))
        if k == "masg":
            return "%s = %s" % (", ".join(n["ns"]), self.paren(n["e"]))
        if k == "if":
            # inline form: single condition, single-expression branches
            s = "if %s then %s" % (self.paren(n["cs"][0]), self.paren(self.single(n["bs"][0])))
            if n["has_else"]:
                s += " else %s" % self.paren(self.single(n["e"]))
            return s
        if k == "throw":
            return "throw %s" % self.paren(n["e"])
        if k == "yield":
            return "yield %s" % self.paren(n["e"])
        if k == "spread":
            return "%s..." % self.paren_strict(n["e"])
        if k == "let":
            return "let %s: %s = %s" % (n["n"], n["ty"], self.paren(n["e"]))
        if k == "mlet":
            ts = ", ".join(a + (": " + t if t else "") for a, t in zip(n["ns"], n["tys"]))
            if n["bare"] and n["e"]["k"] == "tuple" and len(n["e"]["xs"]) >= 2:
                return "let %s = %s" % (ts, ", ".join(self.paren(x) for x in n["e"]["xs"]))
            return "let %s = %s" % (ts, self.paren(n["e"]))
        if k == "break":
            return "break" + (" " + self.paren(n["e"]) if n["has"] else "")
        if k == "continue":
            return "continue"
        if k == "return":
            return "return" + (" " + self.paren(n["e"]) if n["has"] else "")
        if k == "fn":
            return "%s %s" % (self.fn_head(n), self.paren(self.single(n["body"])))
        if k == "block":
            if len(n["xs"]) == 1:
                return self.expr(n["xs"][0])
            raise ValueError("multi-statement block in expression position")
        raise ValueError("cannot render %s inline" % k)

    def arg(self, a):
        return self.expr(a) if a["k"] == "spread" else self.paren(a)

    def pat(self, p):
        k = p["p"]
        if k == "wild":
            return p.get("n", "_")
        if k == "id":
            return p["n"]
        if k == "typed":
            return "%s: %s" % (p["n"], p["ty"])
        if k == "lit":
            return self.expr(p["v"])
        if k == "tup":
            xs = [self.pat(x) for x in p["xs"]]
            if p["rest"] == "first":
                xs = [p["rn"] + "..."] + xs
            elif p["rest"] == "last":
                xs = xs + [p["rn"] + "..."]
            if len(xs) == 1 and p["rest"] == "none":
                return "(" + xs[0] + ",)"
            return "(" + ", ".join(xs) + ")"
        if k == "map":
            return "{" + ", ".join(kk if kk == nn else "%s as %s" % (kk, nn) for kk, nn in zip(p["ks"], p["ns"])) + "}"
        raise ValueError(k)

    def paren_strict(self, n):
        """Parenthesise everything that is not a plain non-negative atom."""
        k = n["k"]
        if k in ("id", "null", "bool", "str") or (k == "int" and n["v"] >= 0) or (k == "flt" and n["n"] >= 0):
            return self.expr(n)
        if k in ("idx", "dot", "app", "core", "mcall"):
            return self.expr(n)
        return "(" + self.expr(n) + ")"

    def recv(self, n):
        if n["k"] in ("id", "idx", "dot", "app", "mcall", "core", "list", "map"):
            return self.expr(n)
        if n["k"] == "tuple" and len(n["xs"]) != 1:
            return self.expr(n)
        return "(" + self.expr(n) + ")"

    def single(self, b):
        if b["k"] == "block" and len(b["xs"]) == 1:
            return b["xs"][0]
        return b

    def fn_head(self, n):
        ps = []
        di = 0
        for p in n["params"]:
            ty = (": " + p["ty"]) if p.get("ty") else ""
            if p["kind"] == "pos":
                ps.append(p["n"] + ty)
            elif p["kind"] == "def":
                ps.append("%s%s = %s" % (p["n"], ty, self.paren(n["defaults"][di])))
                di += 1
            elif p["kind"] == "var":
                ps.append(p["n"] + "...")
            elif p["kind"] == "pat":
                ps.append(self.pat(p["pat"]))
        return "|" + ", ".join(ps) + "|" + ((" -> " + n["ret"]) if n.get("ret") else "")

    # -- statements (block form) -------------------------------------------------------------------
    def is_inline(self, n):
        """Can n be rendered on one line by expr()?"""
        k = n["k"]
        if k in ("switch", "while", "until", "loop", "for", "try", "match"):
            return False
        if k == "block":
            return len(n["xs"]) == 1 and self.is_inline(n["xs"][0])
        if k == "if":
            if len(n["cs"]) != 1:
                return False
            if not self.is_inline(n["bs"][0]) or (n["has_else"] and not self.is_inline(n["e"])):
                return False
            # nested inline ifs and assignments in branches get confusing; keep branches simple
            for b in [n["bs"][0]] + ([n["e"]] if n["has_else"] else []):
                s = self.single(b)
                if s["k"] in ("if", "fn", "break", "continue", "return", "throw", "masg"):
                    return False
            return True
        if k == "fn":
            b = self.single(n["body"])
            return self.is_inline(b) and b["k"] not in ("if", "fn", "asg", "opasg", "masg", "break", "continue",
                                                         "return", "throw")
        return all(self.is_inline(c) for c in children(n))

    def block(self, b, depth):
        """Lines of a block (list of statements) at the given depth."""
        xs = b["xs"] if b["k"] == "block" else [b]
        lines = []
        for x in xs:
            lines += self.stmt(x, depth)
        if not lines:
            lines = [self.ind * depth + "null"]
        return lines

    def stmt(self, n, depth):
        pad = self.ind * depth
        k = n["k"]
        pre = []
        if self.L.comments and self.L.pick(4, 0.7):
            pre.append(pad + "# " + self.L.comment())
        if self.L.rng is not None and self.L.pick(6, 0.85):
            pre.append("")
        out = self._stmt(n, depth)
        if self.L.comments and self.L.pick(5, 0.8):
            out[-1] = out[-1] + " # " + self.L.comment()
        elif self.L.rng is not None and self.L.pick(8, 0.9):
            out[-1] = out[-1] + "  "
        return pre + out

    def headed(self, head, n, depth):
        """`head` followed by construct n whose first line continues the head (x = if ...)."""
        lines = self._stmt(n, depth)
        lines[0] = self.ind * depth + head + lines[0][len(self.ind * depth):]
        return lines

    def _stmt(self, n, depth):
        pad = self.ind * depth
        k = n["k"]
        if k == "block":
            # a nested block in statement position only arises as a construct body
            return self.block(n, depth)
        if k == "if" and not (self.is_inline(n) and self.L.pick(2, 0.5) == 0 and False):
            if self.is_inline(n) and self.L.pick(2, 0.5) == 1:
                return [pad + self.expr(n)]
            lines = []
            for i, (c, b) in enumerate(zip(n["cs"], n["bs"])):
                lines.append(pad + ("if " if i == 0 else "else if ") + self.paren(c))
                lines += self.block(b, depth + 1)
            if n["has_else"]:
                lines.append(pad + "else")
                lines += self.block(n["e"], depth + 1)
            return lines
        if k == "switch":
            lines = [pad + "switch"]
            p1 = self.ind * (depth + 1)
            for c, b in zip(n["cs"], n["bs"]):
                lines += self.arm(p1 + self.paren(c) + " then", b, depth + 1)
            if n["has_else"]:
                lines += self.arm(p1 + "else", n["e"], depth + 1)
            return lines
        if k in ("while", "until"):
            return [pad + k + " " + self.paren(n["c"])] + self.block(n["b"], depth + 1)
        if k == "loop":
            return [pad + "loop"] + self.block(n["b"], depth + 1)
        if k == "for":
            vs = ", ".join(v + ((": " + t) if t else "") for v, t in zip(n["vars"], n["tys"]))
            return [pad + "for %s in %s" % (vs, self.paren(n["it"]))] + self.block(n["b"], depth + 1)
        if k == "match":
            lines = [pad + "match " + self.paren(n["subj"])]
            p1 = self.ind * (depth + 1)
            for a in n["arms"]:
                head = p1 + " or ".join(self.pat(p) for p in a["pats"])
                if a["has_guard"]:
                    head += " if " + self.paren(a["guard"])
                lines += self.arm(head + " then", a["b"], depth + 1)
            if n["has_else"]:
                lines += self.arm(p1 + "else", n["e"], depth + 1)
            return lines
        if k == "app" and self.call_free_ok(n) and self.L.pick(3, 0.4):
            return [pad + self.free_call(n)]
        if k == "asg" and n["e"]["k"] == "app" and self.call_free_ok(n["e"]) and self.L.pick(3, 0.4):
            return [pad + n["n"] + " = " + self.free_call(n["e"])]
        if k == "try":
            lines = [pad + "try"] + self.block(n["b"], depth + 1)
            for c in n["catches"]:
                lines.append(pad + "catch " + c["n"] + (": " + c["ty"] if c["ty"] else ""))
                lines += self.block(c["b"], depth + 1)
            if n["has_fin"]:
                lines.append(pad + "finally")
                lines += self.block(n["fin"], depth + 1)
            return lines
        if k == "asg" and not self.is_inline(n["e"]):
            e = n["e"]
            if e["k"] == "map" and any(v["k"] == "fn" and len(v["body"].get("xs", [])) > 1 for v in e["vs"] + e.get("mvs", [])):
                # guide (Maps): block syntax, each entry on its own indented line; a function value may have a block body
                lines = [pad + n["n"] + " ="]
                p1 = self.ind * (depth + 1)
                for kk, v in list(zip(e["ks"], e["vs"])) + list(zip(e.get("mks", []), e.get("mvs", []))):
                    if v["k"] == "fn" and not self.is_inline(v):
                        lines.append(p1 + "%s: %s" % (kk, self.fn_head(v)))
                        lines += self.block(v["body"], depth + 2)
                    else:
                        lines.append(p1 + "%s: %s" % (kk, self.paren(v)))
                return lines
            if e["k"] == "fn":
                return [pad + n["n"] + " = " + self.fn_head(e)] + self.block(e["body"], depth + 1)
            if e["k"] == "block":
                raise ValueError("block as assignment rhs")
            return self.headed(n["n"] + " = ", e, depth)
        if k == "asg" and n["e"]["k"] == "fn" and self.L.pick(2, 0.5) == 1:
            e = n["e"]
            return [pad + n["n"] + " = " + self.fn_head(e)] + self.block(e["body"], depth + 1)
        if k == "asg" and n["e"]["k"] == "if" and self.L.pick(2, 0.5) == 1:
            return self.headed(n["n"] + " = ", n["e"], depth)
        if k in ("return", "break") and n["has"] and not self.is_inline(n["e"]):
            return self.headed(k + " ", n["e"], depth)
        if k == "fn" and not self.is_inline(n):
            return [pad + self.fn_head(n)] + self.block(n["body"], depth + 1)
        if k in ("map",):
            # a braced map may stand by itself as a statement, e.g. as the only expression of a block
            if self.L.rng is not None and self.L.pick(2, 0.5) == 0:
                return [pad + self.expr(n)]
            return [pad + "(" + self.expr(n) + ")"]
        if k in ("neg",) or (k == "int" and n["v"] < 0) or (k == "flt" and n["n"] < 0):
            return [pad + "(" + self.expr(n) + ")"]
        if k == "asg" and self.is_inline(n["e"]) and n["e"]["k"] in ("app", "core", "mcall", "bin", "list"):
            if self.L.chains and self.L.rng is not None and n["e"]["k"] in ("mcall", "app", "core") and self.L.pick(4, 0.75):
                # the value on the line after `=` (a line ending in `=` asks for more input), itself possibly broken further
                pad1 = self.ind * (depth + 1)
                return (pad + n["n"] + " =\n" + CONT + pad1 + self.expr_ml(n["e"], depth + 1, force=True)).split("\n")
            return (pad + n["n"] + " = " + self.expr_ml(n["e"], depth)).split("\n")
        if k in ("app", "core", "mcall") and self.is_inline(n):
            return (pad + self.expr_ml(n, depth)).split("\n")
        return [pad + self.expr(n)]

    def call_free_ok(self, n):
        """Paren-free / piped call forms (guide: Optional Call Parentheses, Function Piping): used only in
        statement or assignment-rhs position with simple arguments."""
        if n["f"]["k"] != "id" or not n["args"]:
            return False
        for a in n["args"]:
            x = a["e"] if a["k"] == "spread" else a
            if x["k"] not in ("id", "int", "str", "bool", "null", "list", "tuple", "flt"):
                return False
            if x["k"] in ("int",) and x["v"] < 0 or x["k"] == "flt" and x["n"] < 0:
                return False
            if x["k"] == "tuple" and a["k"] == "spread":
                return False
        return True

    def _simple_free_arg(self, a):
        x = a["e"] if a["k"] == "spread" else a
        if x["k"] not in ("id", "int", "str", "bool", "null", "list", "tuple", "flt"):
            return False
        if x["k"] == "int" and x["v"] < 0 or x["k"] == "flt" and x["n"] < 0:
            return False
        if x["k"] == "tuple" and a["k"] == "spread":
            return False
        return True

    def free_call(self, n):
        args = [self.arg(a) for a in n["args"]]
        if n["args"][0]["k"] != "spread" and self.L.pick(2, 0.5):
            # a -> f b   ==  f(a, b)
            rest = ", ".join(args[1:])
            return "%s -> %s%s" % (args[0], n["f"]["n"], (" " + rest) if rest else "")
        return "%s %s" % (n["f"]["n"], ", ".join(args))

    def _ml_elems(self, xs, depth, render, trailing):
        """Elements of a bracketed sequence, one per line at depth + 1.  An element `name.method arg` may be written as a call
        chain broken over two lines with the call without parentheses: inside brackets such a call takes one argument and the
        comma after it belongs to the brackets, so the next element may follow on the same line."""
        pad1, pad2 = self.ind * (depth + 1), self.ind * (depth + 2)
        out, i = [], 0
        while i < len(xs):
            x = xs[i]
            last = lambda: i == len(xs) - 1
            if (self.L.chains and x["k"] == "mcall" and x["c"]["k"] == "id" and len(x["args"]) == 1
                    and self._simple_free_arg(x["args"][0]) and self.L.pick(2, 0.5) == 0):
                line = pad2 + ".%s %s" % (x["m"], self.arg(x["args"][0]))
                if i + 1 < len(xs):
                    line += ", " + render(xs[i + 1])
                    i += 1
                out.append("\n" + CONT + pad1 + x["c"]["n"])
                out.append("\n" + CONT + line + ("," if trailing or not last() else ""))
            else:
                out.append("\n" + CONT + pad1 + render(x) + ("," if trailing or not last() else ""))
            i += 1
        return "".join(out)

    def expr_ml(self, n, depth, force=False):
        """Render the top node of a simple statement, possibly over several lines (guide: arguments, lists and
        binary expressions may be broken across indented lines). Continuation lines carry the marker CONT."""
        if self.L.rng is None or (self.L.pick(3, 0.55) == 0 and not force):
            return self.expr(n)
        k = n["k"]
        pad1 = self.ind * (depth + 1)
        pad0 = self.ind * depth
        if k == "mcall" and n["c"]["k"] == "mcall" and self.L.chains and (self.L.pick(2, 0.6) == 0 or force):
            # guide (Iterators, Function Piping): a call chain broken across indented lines, one call per line, calls
            # without parentheses where the arguments allow it (an inline function last); optionally the whole chain
            # inside redundant parentheses
            links = []
            x = n
            while x["k"] == "mcall":
                links.append(x)
                x = x["c"]
            links.reverse()
            wrap = self.L.pick(2, 0.5) == 0
            padl = self.ind * (depth + (2 if wrap else 1))
            out = self.recv(x)
            ok = True
            for l in links:
                args = l["args"]
                simple = all(self._simple_free_arg(a) or (i == len(args) - 1 and a["k"] == "fn" and self.is_inline(a) and not a.get("gen"))
                             for i, a in enumerate(args))
                if any(a["k"] == "fn" and not self.is_inline(a) for a in args):
                    ok = False
                    break
                # inside brackets a comma belongs to the brackets: a call without parentheses takes one argument there
                if args and simple and (len(args) == 1 or not wrap) and self.L.pick(2, 0.6) == 0:
                    def free_arg(a):
                        if a["k"] == "fn":      # last argument: the function's body runs to the end of the line
                            return "%s %s" % (self.fn_head(a), self.expr(self.single(a["body"])))
                        return self.arg(a)
                    call = ".%s %s" % (l["m"], ", ".join(free_arg(a) for a in args))
                else:
                    call = ".%s(%s)" % (l["m"], ", ".join(self.arg(a) for a in args))
                out += "\n" + CONT + padl + call
            if ok:
                if wrap:
                    first, rest = out.split("\n", 1)
                    return "(\n" + CONT + pad1 + first + "\n" + rest + "\n" + CONT + pad0 + ")"
                return out
        if k in ("app", "core", "mcall") and n["args"] and all(a["k"] != "fn" or self.is_inline(a) for a in n["args"]):
            if k == "app":
                head = self.recv(n["f"])
            elif k == "core":
                head = CORE_NAMES.get(n["f"], n["f"])
            else:
                head = "%s.%s" % (self.recv(n["c"]), n["m"])
            args = [self.arg(a) for a in n["args"]]
            style = self.L.pick(3, 0.34)
            if style == 0:
                if all(a["k"] != "spread" for a in n["args"]):
                    return head + "(" + self._ml_elems(n["args"], depth, self.arg, False) + "\n" + CONT + pad0 + ")"
                body = "".join("\n" + CONT + pad1 + a + ("," if i < len(args) - 1 else "") for i, a in enumerate(args))
                return head + "(" + body + "\n" + CONT + pad0 + ")"
            if style == 1 and len(args) >= 2:
                return head + "(" + args[0] + "," + "".join("\n" + CONT + pad1 + a + ("," if i < len(args) - 2 else "")
                                                             for i, a in enumerate(args[1:])) + ")"
            return head + "(" + "".join("\n" + CONT + pad1 + a + "," for a in args) + "\n" + CONT + pad0 + ")"
        if k == "bin":
            p = PREC[n["op"]]
            a, b = self.operand(n["a"], p, False), self.operand(n["b"], p, True)
            if self.L.pick(2, 0.5) == 0:
                return "%s %s\n%s%s%s" % (a, n["op"], CONT, pad1, b)
            return "%s\n%s%s%s %s" % (a, CONT, pad1, n["op"], b)
        if k == "list" and n["xs"]:
            return "[" + self._ml_elems(n["xs"], depth, self.paren, True) + "\n" + CONT + pad0 + "]"
        return self.expr(n)

    def arm(self, head, body, depth):
        if self.is_inline(body) and self.single(body)["k"] not in ("if", "masg") and self.L.pick(2, 0.5) == 0:
            return [head + " " + self.paren(self.single(body))]
        return [head] + self.block(body, depth + 1)

    def program(self, n):
        lines = "\n".join(self.block(n, 0)).split("\n")      # an element may hold several physical lines
        self.cont_lines = {i for i, l in enumerate(lines) if l.startswith(CONT)}
        return "\n".join(l.replace(CONT, "") for l in lines) + "\n"


def render(ast, layout=None):
    return Renderer(layout).program(ast)


def render_with_lines(ast, layout=None):
    """(source, set of 0-based indices of continuation lines)"""
    r = Renderer(layout)
    src = r.program(ast)
    return src, r.cont_lines


def wrap_in_function(ast, extra_locals=0, name="kv_main"):
    """Context variant: the same program as the body of a function that is called once, with a number
    of extra live locals. The program's value is the call's value."""
    pre = [Asg("kv_pad%d" % i, Int(i)) for i in range(extra_locals)]
    body = Block(pre + (ast["xs"] if ast["k"] == "block" else [ast]))
    return Block([Asg(name, Fn([], body)), App(Id(name), [])])
