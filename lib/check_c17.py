"""C17 — objects: operators and protocols dispatch to metamap entries (KotoCore machine as oracle, replayed)."""
import random
import common, core_replay, gen_dispatch

PROP = "C17"


def run(tier, seed):
    rng = random.Random(seed)
    quick = tier == "quick"
    fams = [("ar", list(gen_dispatch.arithmetic()), 0, 1, ("top", "fn0")),
            ("cm", list(gen_dispatch.comparisons(rng, 1500 if quick else None)), 0, 1, ("top",) if quick else ("top", "fn0")),
            ("pr", list(gen_dispatch.protocols()), 1, 2, ("top", "fn0"))]
    rep, preds, progs = core_replay.family_check(
        PROP, tier, seed, fams,
        rule="arithmetic: 6 operators x left operand {number, string, plain map, object without the key, object whose @op returns / "
             "throws koto.unimplemented / throws an error} x right operand {number, plain map, object without, object with @r op} x "
             "own vs with_meta-shared metamap, plus compound assignment with/without @op=; comparisons: every subset of "
             "{@==,@!=,@<,@<=,@>,@>=} x answers of @< and @== x 6 operators (derived !=, <=, >, >=), chains; protocols: @negate, "
             "@size, @index, @index_assign, @call, @display, @type, @access, @access_assign, @iterator, @next (+priority), "
             "lookup chain own data -> @meta -> @base (depth 2) as value and as method, type checks along @base. Every metakey "
             "function prints which function ran with which operands.",
        assumptions=["host objects defined through the Rust object interface are not covered (see DESIGN.md)",
                     "operators are used in value position only (an unused result may be elided: E1)"])
    return rep.finish()


def replay(path):
    return core_replay.generic_replay(PROP, path)
