"""C07 — a failed run leaves the runtime reusable and clean.
Session.tla: TLC enumerates every history of MaxLen operations on one instance and predicts, for each step, the
result class/value and the abstract state (completed effects). The histories are replayed on a real koto::Koto
instance; after every step the exported state is observed and the VM's hook events of that step are validated
against KotoVm.tla (Balanced at every activation exit, QuiescentIsClean when the host regains control)."""
import json, random
import common, vmtrace

PROP = "C07"

INIT = """export bump = |n|
  lst.push n
  x + n
export boom = |n|
  lst.push n
  throw 'boom'
export deep = |n|
  lst.push n
  (1, 2).each(|v| boom v).to_tuple()
export genfail = |n|
  lst.push n
  g = ||
    yield 1
    throw 'in generator'
  for v in g()
    v
export native = list.first
export x = 0
export lst = []
export bad_notfn = {@display: 5}
export bad_arity = {@display: |a, b| 'x'}
export bad_throw = {@display: || throw 'no display'}
"""
PRE = "lst.push 7\nexport x = x + 10\n"
SCRIPTS = {
    "r_inc": "export x = x + 1\nx\n",
    "r_push": "lst.push x\nsize lst\n",
    "r_probe": "x\n",
    "f_throw": PRE + "throw 'top level'\n",
    "f_call": PRE + "boom 3\n",
    "f_each": PRE + "(1, 2).each(|v| throw 'functor').to_tuple()\n",
    "f_gen": PRE + "g = ||\n  yield 1\n  throw 'generator'\nfor v in g()\n  v\n",
    "f_str": PRE + "s = 'a {throw 'in string'} b'\n",
    "f_seq": PRE + "l = [1, [2, throw 'in list'], 3]\n",
    "f_type": PRE + "let y: String = 1\n",
    "f_arity": PRE + "f = |a| a\nf()\n",
    "f_import": PRE + "import no_such_module_zzz\n",
    "f_op": PRE + "o = {@+: |rhs| throw 'operator'}\nz = o + 1\n",
    "f_nested_try": PRE + "try\n  try\n    throw 'inner'\n  catch e\n    z = 'x {[1, throw 'again']} y'\ncatch e2\n  throw e2\nfinally\n  w = 1\n",
    # the limit is reached two script calls deep (not at the top level of the script)
    "f_timeout": PRE + "spin = |n|\n  if n > 0\n    return spin(n - 1)\n  loop\n    y = 1\nspin 2\n",
    "f_compile": PRE + "y = )\n",
    "f_indent": PRE + "f = |a|\n",
}
CALLS = {
    "c_bump": ("call", "bump", [2]), "c_boom": ("call", "boom", [5]), "c_deep": ("call", "deep", [6]),
    "c_few": ("call", "bump", []), "c_many": ("call", "bump", [1, 2, 3]), "c_native": ("call", "native", [5]),
    "c_notfn": ("call_value", "x", []), "c_missing": ("call", "nope", []), "c_gen": ("call", "genfail", [8]),
    "d_lst": ("display", "lst", []), "d_x": ("display", "x", []),
    "d_notfn": ("display", "bad_notfn", []), "d_arity": ("display", "bad_arity", []), "d_throw": ("display", "bad_throw", []),
}


def op_json(op):
    if op in SCRIPTS:
        return {"op": "run", "src": SCRIPTS[op]}
    k, name, args = CALLS[op]
    return {"op": k, "name": name, "args": args}


def check_history(rep, h, res, traces):
    """Compare one replayed history with its prediction. Returns number of steps compared."""
    if res.get("status") != "done":
        rep.violation("hist_%s" % "_".join(h["hist"]), {"property": PROP, "why": "implementation %s" % res.get("status"),
                                                        "history": h["hist"], "actual": res})
        return 0
    steps = res["steps"][1:]          # steps[0] is the init script
    for k, (op, pred, act) in enumerate(zip(h["hist"], h["preds"], steps)):
        why = None
        pr = pred["res"]
        if pr["status"] == "ok":
            if act["status"] != "ok":
                why = "step %d (%s): expected ok, got error: %s" % (k, op, (act.get("err_msg") or "")[:160])
            elif act["value"] != pr["value"]:
                why = "step %d (%s): expected value %r got %r" % (k, op, pr["value"], act["value"])
        else:
            if act["status"] != "err":
                why = "step %d (%s): expected an error, got ok %r" % (k, op, act.get("value"))
            elif pr["cls"] in ("timeout", "compile", "missing_function") and act.get("err_class") != pr["cls"]:
                why = "step %d (%s): expected error class %s got %s" % (k, op, pr["cls"], act.get("err_class"))
            elif pr["cls"] == "error" and act.get("err_class") in ("timeout",):
                why = "step %d (%s): unexpected timeout" % (k, op)
        if why is None and (act["x"] != pred["x"] or act["lst"] != pred["lst"]):
            why = "step %d (%s): exported state after the step is x=%s lst=%s, expected x=%s lst=%s (only completed " \
                  "effects may remain)" % (k, op, act["x"], act["lst"], pred["x"], pred["lst"])
        stt = act["state"]
        if why is None and (stt["d"] or stt["r"] or stt["b"] or stt["q"] or stt["t"]):
            why = "step %d (%s): idle runtime holds residue %s" % (k, op, stt)
        if why:
            rep.violation("hist_%s" % "_".join(h["hist"]), {"property": PROP, "why": why, "history": h["hist"],
                                                            "predicted": h["preds"], "actual": [
                    {kk: s[kk] for kk in ("status", "value", "err_class", "x", "lst", "state") if kk in s} for s in steps]})
            return k
    return len(steps)


def run(tier, seed):
    rep = common.Report(PROP, tier, "model_checking", seed)
    rng = random.Random(seed)
    quick = tier == "quick"
    res = common.run_tlc("Session", "MC_Session_quick.cfg" if quick else "MC_Session_thorough.cfg", workers=8, timeout=1500)
    common.tlc_ok(res, "Session")
    hists = common.tlc_values(res, "HIST")
    rt = common.run_tlc("Session", "MC_Session_timeout.cfg", workers=4, timeout=600)
    common.tlc_ok(rt, "Session(timeout)")
    hists_t = [h for h in common.tlc_values(rt, "HIST") if "f_timeout" in h["hist"]]
    total_hist = len(hists)
    if quick:
        rng.shuffle(hists)
        hists = hists[:3000]
        rng.shuffle(hists_t)
        hists_t = hists_t[:24]
    elif len(hists) > 60000:
        rng.shuffle(hists)
        hists = hists[:60000]
    jobs = []
    for i, h in enumerate(hists):
        jobs.append({"id": "h%d" % i, "ops": [{"op": "run", "src": INIT}] + [op_json(o) for o in h["hist"]]})
    for i, h in enumerate(hists_t):
        jobs.append({"id": "t%d" % i, "limit_ms": 120, "ops": [{"op": "run", "src": INIT}] + [op_json(o) for o in h["hist"]]})
    results = common.kv_parallel("session", jobs, per_job_timeout=30)
    steps = 0
    traces = []
    allh = hists + hists_t
    for h, job, r in zip(allh, jobs, results):
        steps += check_history(rep, h, r, traces)
        if r.get("status") == "done":
            evs = []
            for s in r["steps"]:
                evs += s["events"]
                st = s["state"]
                evs.append({"e": "Observe", "vm": st["vm"], "d": st["d"], "r": st["r"], "b": st["b"], "q": st["q"],
                            "t": st["t"], "c": 0, "a": 0, "x": 0, "s": ""})
            traces.append({"id": job["id"], "events": evs})
    # trace validation of (a sample of) the replayed histories against KotoVm.tla
    sample = traces if not quick else traces[:1500]
    verdicts, tst = vmtrace.validate(sample, tag="c07")
    nev = sum(len(t["events"]) for t in sample)
    for t in sample:
        v = verdicts[t["id"]]
        if not v["ok"]:
            k = int(t["id"][1:])
            h = (hists if t["id"].startswith("h") else hists_t)[k]
            rep.violation("trace_%s" % "_".join(h["hist"]),
                          {"property": PROP, "why": "VM trace rejected by KotoVm.tla at event %d: %s" % (v["at"], v["why"]),
                           "history": h["hist"], "events_before": t["events"][max(0, v["at"] - 6): v["at"]]})
    rep.coverage = {
        "states": res.distinct + rt.distinct + tst["states"], "transitions": res.states_generated + rt.states_generated + tst["transitions"],
        "traces_validated_against_impl": len(allh) + len(sample),
        "samples": [{"history": allh[0]["hist"], "predicted": allh[0]["preds"]}, {"history": hists_t[0]["hist"]} if hists_t else {}],
        "evaluations": len(allh), "distinct_nontrivial": len(allh),
        "rule": "every history of %d operations over the 27-operation library (3 succeeding scripts, 13 failing scripts "
                "with the fault at top level / in a call / in an adaptor functor / in a generator / in string and list "
                "construction / failed type check / wrong arity / failed import / overloaded operator / nested "
                "try-finally, compile and indentation errors, 9 host-initiated calls incl. wrong arity, native function, "
                "non-callable, missing function, 2 displays) enumerated by TLC (%d histories; %d replayed), plus "
                "histories containing a timeout; each step compared with the prediction, the exported state observed, "
                "the VM's residue checked, and the hook trace validated against KotoVm.tla" % (3 if quick else 4, total_hist, len(hists)),
        "steps_compared": steps, "hook_events_validated": nev, "timeout_histories": len(hists_t), "exhaustive": (not quick and len(hists) == total_hist),
    }
    rep.assumptions = ["the script library's effects are transcribed by hand into Session.tla (Effect)",
                       "failed @test functions are not part of the library (an exported failing @test is itself a completed "
                       "effect that makes every later run fail)"]
    return rep.finish()


def replay(path):
    d = json.load(open(path))
    ops = [{"op": "run", "src": INIT}] + [op_json(o) for o in d["history"]]
    r = common.kv("session", [{"id": "replay", "ops": ops, "limit_ms": 120 if "f_timeout" in d["history"] else None}])[0]
    for s in r.get("steps", [])[1:]:
        print({k: s.get(k) for k in ("status", "value", "err_class", "x", "lst", "state")})
    print("expected:", d.get("predicted"))
    print(d["why"])
    rep = common.Report(PROP, "quick", "model_checking", 0)
    n = check_history(rep, {"hist": d["history"], "preds": d.get("predicted", [])}, r, [])
    return 1 if rep.violations else 0
