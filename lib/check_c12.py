"""C12 — diagnostics: the machine reports the failing node and the call sites (innermost first); these are mapped
to source lines of the rendered program and compared with the implementation's error trace and message."""
import json, random, re
import common, core_replay, gen_diag, kast

PROP = "C12"


def expected_lines(ast, pred, src, cont=frozenset()):
    """Lines on which the failing expression and each enclosing call expression START. A node that is the top
    node of a statement rendered over several lines starts on the statement's first line; any other node
    starts on the line its marker is on."""
    nodes = gen_diag.index_nodes(ast)
    parents = {}

    def walk(n):
        for c in kast.children(n):
            parents[c["id"]] = n
            walk(c)
    walk(ast)
    lines = src.split("\n")

    def line_of(nid):
        n = nodes.get(nid)
        if n is None:
            return None
        m = gen_diag.marker_of(n)
        if m is None:
            return None
        hits = [i for i, l in enumerate(lines) if m in l]
        if len(hits) != 1:
            return None
        ln = hits[0]
        par = parents.get(nid)
        top = par is None or par["k"] == "block" or (par["k"] in ("asg",) and par["e"] is n)
        # a `throw` statement's failing node is the throw itself (top of its statement)
        if top:
            while ln in cont and ln > 0:
                ln -= 1
        elif ln in cont:
            # the node sits on a continuation line of its statement: it starts there only if it is an operand or
            # argument rendered on its own line, which is how expr_ml lays statements out
            pass
        return ln

    return [line_of(pred["at"])] + [line_of(t) for t in pred["trace"]]


HDR = re.compile(r"^--- (?:.* - )?(\d+):(\d+)$")


def message_lines(msg):
    """(line numbers, quoted texts) of the excerpts in a rendered error message."""
    out = []
    ls = msg.split("\n")
    for i, l in enumerate(ls):
        m = HDR.match(l)
        if m:
            ln = int(m.group(1))
            quoted = None
            for k in range(i + 1, min(i + 4, len(ls))):
                q = re.match(r"^\s*%d \| (.*)$" % ln, ls[k])
                if q:
                    quoted = q.group(1)
                    break
            out.append((ln, quoted))
    return out


def excerpt_shape(msg):
    """The excerpts of a rendered message are laid out consistently: the gutter bars of an excerpt stand in one column, line
    numbers are right-aligned against them, and a caret line starts under the column the header names.  None, or a reason."""
    ls = msg.split("\n")
    hdr = re.compile(r"^(?:--- )?(?:.* - )?(\d+):(\d+)$")
    for i, l in enumerate(ls):
        m = hdr.match(l)
        if not m or i + 2 >= len(ls) or not re.match(r"^\s*\|\s*$", ls[i + 1]):
            continue
        col = int(m.group(2))
        bar = ls[i + 1].index("|")
        k = i + 2
        while k < len(ls) and ls[k].strip() != "" and not hdr.match(ls[k]):
            if "|" not in ls[k] or ls[k].index("|") != bar:
                return "excerpt at %s: gutter bars are not aligned (%r under %r)" % (m.group(0), ls[k], ls[i + 1])
            left = ls[k][:bar]
            if left.strip() and not left.endswith(" ") or (left.strip() and not re.match(r"^\s*\d+ $", left)):
                return "excerpt at %s: malformed gutter %r" % (m.group(0), ls[k])
            body = ls[k][bar + 1:]
            if not left.strip() and body.strip() and set(body.strip()) == {"^"}:
                # the caret line: one space after the bar, then the line's text columns (1-based column in the header)
                start = len(body) - len(body.lstrip(" "))
                if start != col:
                    return "excerpt at %s: the carets start at column %d of the quoted line" % (m.group(0), start)
            k += 1
    return None


def run(tier, seed):
    rep = common.Report(PROP, tier, "model_checking", seed)
    rng = random.Random(seed)
    quick = tier == "quick"
    asts = gen_diag.programs(rng, 400 if quick else 6000)
    progs = [{"id": "d%d" % i, "ast": a} for i, a in enumerate(asts)]
    preds, st = core_replay.predict(progs, tag="c12", shards=8)
    jobs, index = [], []
    for p in progs:
        pr = preds[p["id"]]
        if pr["status"] != "err":
            continue
        for name, src, cont in core_replay.variants(p["ast"], rng, 3 if quick else 6, ("top", "fn0", "fn3"), with_lines=True):
            jobs.append({"id": "%s|%s" % (p["id"], name), "src": src, "limit_ms": 5000})
            index.append((p, pr, name, cont))
    results = common.kv_parallel("run", jobs)
    checked = 0
    depth_hist = {}
    for job, (p, pr, name, cont), act in zip(jobs, index, results):
        src = job["src"]
        exp = expected_lines(p["ast"], pr, src, cont)
        why = core_replay.compare(pr, act)
        if why is None:
            if any(e is None for e in exp):
                continue          # marker not uniquely locatable in this layout: skip (counted as unchecked)
            got = act.get("err_lines") or []
            # wrapped variants add one enclosing call (kv_main()) after the program's own frames
            extra = 1 if name.startswith("fn") else 0
            if got[:len(exp)] != exp or len(got) != len(exp) + extra:
                why = "error trace lines differ: expected %s (0-based, innermost first) got %s" % (exp, got)
            else:
                ml = message_lines(act.get("err_msg") or "")
                src_lines = src.split("\n")
                if [l - 1 for l, _ in ml][:len(exp)] != exp:
                    why = "rendered message quotes lines %s, expected %s" % ([l - 1 for l, _ in ml], exp)
                elif any(q is not None and q != src_lines[l - 1] for l, q in ml):
                    why = "rendered message quotes text that is not the source line"
                else:
                    why = excerpt_shape(act.get("err_msg") or "")
            checked += 1
            depth_hist[len(exp)] = depth_hist.get(len(exp), 0) + 1
        if why:
            rep.violation("%s_%s" % (p["id"], name.replace("/", "_")),
                          {"property": PROP, "why": why, "source": src, "predicted": pr, "actual": act,
                           "expected_lines": exp})
    # the `debug` clause: every debug expression is reported once, with the line its keyword is on (lib/dbg_lines.py)
    import dbg_lines
    dj, dw = [], []
    for i in range(150 if quick else 3000):
        src, want = dbg_lines.text(rng, 6)
        dj.append({"id": "dbg%d" % i, "src": src, "limit_ms": 3000})
        dw.append(want)
    for job, want, r in zip(dj, dw, common.kv_parallel("run", dj)):
        why = dbg_lines.judge(r.get("stdout"), want) if r.get("status") == "ok" else "the script failed: %s %s" % (r.get("status"), (r.get("err_msg") or "")[:200])
        if why:
            rep.violation(job["id"], {"property": PROP, "why": why, "source": job["src"], "debug_lines": {str(k): v for k, v in want.items()}, "actual": r.get("stdout")})
    rep.coverage = {
        "debug_texts": len(dj), "debug_contexts": len(dbg_lines.CONTEXTS),
        "states": st["states"], "transitions": st["transitions"], "traces_validated_against_impl": checked,
        "samples": [kast.render(asts[0]), kast.render(asts[1])],
        "evaluations": len(jobs), "distinct_nontrivial": sum(1 for p in progs if preds[p["id"]]["status"] == "err"),
        "rule": "programs with one fault (throw, bad index, type mismatch, failed assertion, null index) planted under "
                "0..4 nested calls (plain calls, calls inside functions run by fold / each / keep, inside overloaded operators, generators consumed by for or next), preceded by line-shifting multi-line constructs, rendered in several layouts and "
                "contexts; the machine's failing node and call-site nodes are mapped to lines through unique markers",
        "trace_depth_histogram": depth_hist, "exhaustive": False,
    }
    rep.assumptions = ["call chains through script functions, through functions run by fold / each / keep / to_tuple / count, and through "
                       "generators consumed by for or next, and through overloaded arithmetic operators are predicted; other core-library callbacks are not", "compile-error positions are checked by C10's block-prefix check",
                       "the debug clause is a positional oracle of the harness (20 contexts stacked in random order), not a TLA+ prediction"]
    return rep.finish()


def replay(path):
    d = json.load(open(path))
    if "debug_lines" in d:
        import dbg_lines
        r = common.kv("run", [{"id": "replay", "src": d["source"], "limit_ms": 5000}])[0]
        why = dbg_lines.judge(r.get("stdout"), {int(k): v for k, v in d["debug_lines"].items()}) if r.get("status") == "ok" else "failed"
        print(d["source"]); print(r.get("stdout")); print("why:", why)
        if why:
            print("VIOLATION property=%s replay=%s" % (PROP, path)); return 1
        return 0
    res = common.kv("run", [{"id": "replay", "src": d["source"], "limit_ms": 5000}])
    print(d["source"])
    print("expected lines:", d.get("expected_lines"), "actual:", res[0].get("err_lines"))
    if (res[0].get("err_lines") or [])[:len(d["expected_lines"])] != d["expected_lines"]:
        print("VIOLATION property=%s replay=%s" % (PROP, path))
        return 1
    return 0
