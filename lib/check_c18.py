"""C18 — modules: exports, imports, caching.
Modules.tla: TLC enumerates module graphs on 3 modules (every ordered dependency list incl. cycles and self-imports x
failure placement x derived attributes) and computes the observable log of two host scripts run on ONE runtime.
The graphs are materialised on disk and replayed; RunOnce / OrderTopTestsMain / FailedLeavesNothing / CycleIsError are
checked on the model for every configuration and, through the log, on the implementation."""
import json, os, random, shutil
import common, kast, gen_core, core_replay

PROP = "C18"
VAL = {"a": 1, "b": 2, "c": 3}


def module_text(cfg, m, variant):
    tag = "%s@%s" % (m, variant)
    L = ["print '%s:top'" % tag]
    form = cfg["form"][m]
    for d in cfg["deps"][m]:
        if form == "import":
            imp, use = "import %s" % d, "%s.v_%s" % (d, d)
        elif form == "from":
            imp, use = "from %s import v_%s" % (d, d), "v_%s" % d
        elif form == "fromas":
            imp, use = "from %s import v_%s as q_%s" % (d, d, d), "q_%s" % d
        else:
            imp, use = "from %s import *" % d, "v_%s" % d
        body = [imp, "x_%s = %s" % (d, use), "print '%s sees %s={x_%s}'" % (m, d, d)]
        if cfg["guard"][m]:
            L += ["try"] + ["  " + b for b in body] + ["catch e", "  print '%s caught %s'" % (m, d)]
        else:
            L += body
    L += ["export v_%s = %d" % (m, VAL[m]), "print '%s:exported'" % tag, "v_%s = 99" % m]
    if cfg["fail"][m] == "body":
        L.append("throw '%s failed in its body'" % m)
    if cfg["tm"][m] in ("test", "both"):
        L += ["@test t_%s = ||" % m, "  print '%s:test'" % tag]
        if cfg["fail"][m] == "test":
            L.append("  assert false")
    if cfg["tm"][m] in ("main", "both"):
        L += ["@main = ||", "  print '%s:main'" % tag]
        if cfg["fail"][m] == "main":
            L.append("  throw '%s @main failed'" % m)
    return "\n".join(L) + "\n"


def host_text(roots, first):
    L = [] if first else ["print '--second run--'"]
    for i, r in enumerate(roots):
        L += ["r%d = ||" % i, "  try", "    import %s" % r, "    print 'host got %s={%s.v_%s}'" % (r, r, r), "  catch e",
              "    print 'host caught %s'" % r, "r%d()" % i]
    return "\n".join(L) + "\n"


def materialise(base, cfg):
    os.makedirs(base, exist_ok=True)
    for name, roots, first in (("host1.koto", cfg["roots1"], True), ("host2.koto", cfg["roots2"], False)):
        with open(os.path.join(base, name), "w") as f:
            f.write(host_text(roots, first))
    for m in ("a", "b", "c"):
        w = cfg["where"][m]
        if w in ("file", "both"):
            with open(os.path.join(base, m + ".koto"), "w") as f:
                f.write(module_text(cfg, m, "file"))
        if w in ("dir", "both"):
            os.makedirs(os.path.join(base, m), exist_ok=True)
            with open(os.path.join(base, m, "main.koto"), "w") as f:
                f.write(module_text(cfg, m, "dir"))


def run(tier, seed):
    rep = common.Report(PROP, tier, "model_checking", seed)
    rng = random.Random(seed)
    quick = tier == "quick"
    res = common.run_tlc("Modules", "Modules.cfg", workers=8, coverage=False, timeout=1500)
    common.tlc_ok(res, "Modules")
    cfgs = common.tlc_values(res, "CFG")
    total = len(cfgs)
    rng.shuffle(cfgs)
    cfgs = cfgs[: (1500 if quick else 25000)]
    root = os.path.join(common.WORK, "modules_%d" % os.getpid())
    shutil.rmtree(root, ignore_errors=True)
    jobs = []
    for i, c in enumerate(cfgs):
        base = os.path.join(root, "g%d" % i)
        materialise(base, c["cfg"])
        jobs.append({"id": "g%d" % i, "run_import_tests": c["cfg"]["tests"], "run_tests": False,
                     "ops": [{"op": "run", "src": host_text(c["cfg"]["roots1"], True), "path": os.path.join(base, "host1.koto")},
                             {"op": "run", "src": host_text(c["cfg"]["roots2"], False), "path": os.path.join(base, "host2.koto"),
                              "dump_exports": True}]})
    results = common.kv_parallel("session", jobs, per_job_timeout=30)
    cyc = fails = 0
    for c, job, r in zip(cfgs, jobs, results):
        why = None
        if r.get("status") != "done":
            why = "implementation %s: %s" % (r.get("status"), (r.get("err_msg") or "")[:200])
        else:
            out = "".join(s["stdout"] for s in r["steps"]).split("\n")
            out = [l for l in out if l]
            if out != c["out"]:
                k = 0
                while k < min(len(out), len(c["out"])) and out[k] == c["out"][k]:
                    k += 1
                why = "log differs at line %d: expected %r got %r" % (k, c["out"][k] if k < len(c["out"]) else None, out[k] if k < len(out) else None)
            elif any(s["status"] != "ok" for s in r["steps"]):
                why = "host script failed: %s" % [s.get("err_msg") for s in r["steps"] if s["status"] != "ok"][0][:200]
            elif r["steps"][-1].get("exports") not in ({}, None) and set(r["steps"][-1]["exports"]) - {"r0", "r1", "r2"}:
                why = "the host script's exports contain entries of imported modules: %s (a failed or finished import must restore the importer's exports)" % sorted(r["steps"][-1]["exports"])
        if any("caught" in l for l in c["out"]):
            fails += 1
        if why:
            rep.violation("graph_%s" % job["id"], {"property": PROP, "why": why, "cfg": c["cfg"], "predicted": c["out"],
                                                   "actual": None if r.get("status") != "done" else [s["stdout"] for s in r["steps"]],
                                                   "files": {m: module_text(c["cfg"], m, "file" if c["cfg"]["where"][m] != "dir" else "dir") for m in "abc"},
                                                   "host1": job["ops"][0]["src"], "host2": job["ops"][1]["src"]})
    # (a2) clearing the module cache: the next import loads and runs the module as it is on disk now, whatever an earlier
    # version did -- a version that fails is reported every time it is imported, never replaced by the exports of a version that is gone
    V1 = "print 'm v1 runs'\nexport value = 1\n"
    V2 = "print 'm v2 runs'\nthrow 'm v2 is broken'\n"
    V3 = "print 'm v3 runs'\nexport value = 3\n"
    HOST = "import m\nprint 'host sees {m.value}'\n"
    scen = [("reimport_failing", [V1, "run", "clear", V2, "run", "run", "clear", V3, "run"],
             [["m v1 runs", "host sees 1"], ["m v2 runs"], ["m v2 runs"], ["m v3 runs", "host sees 3"]], ["ok", "err", "err", "ok"]),
            ("reimport_no_clear", [V1, "run", V2, "run", "clear", "run", "run"],
             [["m v1 runs", "host sees 1"], ["host sees 1"], ["m v2 runs"], ["m v2 runs"]], ["ok", "ok", "err", "err"])]
    sjobs = []
    for nm, steps, _, _ in scen:
        base = os.path.join(root, "scen_" + nm)
        os.makedirs(base, exist_ok=True)
        with open(os.path.join(base, "host.koto"), "w") as f:
            f.write(HOST)
        ops = []
        for st0 in steps:
            if st0 == "run":
                ops.append({"op": "run", "src": HOST, "path": os.path.join(base, "host.koto")})
            elif st0 == "clear":
                ops.append({"op": "clear_cache"})
            else:
                ops.append({"op": "write_file", "path": os.path.join(base, "m.koto"), "src": st0})
        sjobs.append({"id": "scen_" + nm, "ops": ops})
    for (nm, steps, want_out, want_st), job, r in zip(scen, sjobs, common.kv("session", sjobs)):
        why = None
        if r.get("status") != "done":
            why = "implementation %s (%s)" % (r.get("status"), (r.get("err_msg") or "")[:200])
        else:
            runs = [stp for op, stp in zip(job["ops"], r["steps"]) if op["op"] == "run"]
            got_out = [[l for l in stp["stdout"].split("\n") if l] for stp in runs]
            got_st = [stp["status"] for stp in runs]
            if got_out != want_out or got_st != want_st:
                why = "module cache scenario %s: expected %s %s, got %s %s" % (nm, want_st, want_out, got_st, got_out)
        if why:
            rep.violation("scen_" + nm, {"property": PROP, "why": why, "scenario": nm, "steps": steps})
    shutil.rmtree(root, ignore_errors=True)
    # (b) export_top_level_ids: every top-level assignment ends up in the exports map with its final value
    g = gen_core.Gen(rng, tracer=False)
    progs = [{"id": "x%d" % i, "ast": g.program()} for i in range(200 if quick else 3000)]
    preds, st2 = core_replay.predict(progs, tag="c18", shards=8)
    ejobs, eidx = [], []
    for p in progs:
        pr = preds[p["id"]]
        if pr["status"] != "ok":
            continue
        ejobs.append({"id": p["id"], "src": kast.render(p["ast"]), "export_top": True, "dump_exports": True, "limit_ms": 5000})
        eidx.append((p, pr))
    eres = common.kv_parallel("run", ejobs)
    nexp = 0
    for job, (p, pr), r in zip(ejobs, eidx, eres):
        why = core_replay.compare(pr, r)
        if why is None:
            exp = {e[1]: e[2] for e in pr.get("topenv", [])}
            got = r.get("exports") or {}
            for name, val in exp.items():
                if got.get(name) != val:
                    why = "export_top_level_ids: top-level variable %s should be exported with its final value %r, exports hold %r" % (name, val, got.get(name))
                    break
            nexp += len(exp)
        if why:
            rep.violation("exporttop_%s" % p["id"], {"property": PROP, "why": why, "source": job["src"], "predicted": pr, "actual": r})
    rep.coverage = {
        "states": res.distinct + st2["states"], "transitions": res.states_generated + st2["transitions"],
        "traces_validated_against_impl": len(cfgs) + len(ejobs),
        "samples": [{"cfg": cfgs[0]["cfg"], "log": cfgs[0]["out"]}],
        "evaluations": len(cfgs) + len(ejobs), "distinct_nontrivial": len(cfgs) + len(ejobs),
        "rule": "module graphs: every ordered dependency list of <=2 modules per module over {a,b,c} (self-imports and cycles "
                "included) x failure placement {none, body, @test, @main} of two modules x 6 mixes of the remaining attributes "
                "(import form {import, from, from-as, *}, file/dir/both, @test/@main presence, try-guarded imports, "
                "run_import_tests, host root lists incl. re-import and second run): %d configurations, all checked on the "
                "model, %d replayed from disk; export_top_level_ids on %d core programs (%d exported names compared)" % (total, len(cfgs), len(ejobs), nexp),
        "configs_with_failed_import": fails, "exhaustive": False,
    }
    rep.assumptions = ["a second `import m` statement in the scope of an earlier one is a no-op in the implementation (the guide is "
                       "silent): every host import lives in its own function scope", "module bodies are generated from one template"]
    return rep.finish()


def replay(path):
    d = json.load(open(path))
    if "cfg" not in d:
        return core_replay.generic_replay(PROP, path)
    base = os.path.join(common.WORK, "modules_replay")
    shutil.rmtree(base, ignore_errors=True)
    materialise(base, d["cfg"])
    r = common.kv("session", [{"id": "replay", "run_import_tests": d["cfg"]["tests"], "run_tests": False,
                               "ops": [{"op": "run", "src": d["host1"], "path": os.path.join(base, "host1.koto")},
                                       {"op": "run", "src": d["host2"], "path": os.path.join(base, "host2.koto")}]}])[0]
    out = [l for l in "".join(s["stdout"] for s in r.get("steps", [])).split("\n") if l]
    print("expected:", d["predicted"]); print("actual:  ", out)
    if out != d["predicted"]:
        print("VIOLATION property=%s replay=%s" % (PROP, path)); return 1
    return 0
