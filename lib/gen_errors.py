"""Program generators for C04: errors raised at planted fault sites under nested try/catch/finally."""
import random
from kast import *

HELPERS = None


def helpers():
    """Helper functions defined at the top of every program."""
    thrower = Fn([Param("d"), Param("msg")],
                 Block([If([Cmp(["<="], [Id("d"), Int(0)])], [Block([Throw(Id("msg"))])]),
                        App(Id("thrower"), [Bin("-", Id("d"), Int(1)), Id("msg")])]), free=["thrower"])
    idxerr = Fn([Param("d")],
                Block([If([Cmp(["<="], [Id("d"), Int(0)])], [Block([Idx(List([]), Int(5))])]),
                       Bin("+", App(Id("idxerr"), [Bin("-", Id("d"), Int(1))]), Int(1))]), free=["idxerr"])
    one = Fn([Param("a")], Block([Id("a")]))
    t = Fn([Param("x")], Block([Core("print", [Id("x")]), Id("x")]))
    return [Asg("thrower", thrower), Asg("idxerr", idxerr), Asg("one", one), Asg("t", t)]


class ErrGen:
    def __init__(self, rng):
        self.r = rng
        self.mark = 0
        self.msgn = 0
        self.vars = []      # variables holding ints / lists created so far (printed after handlers)
        self.nv = 0

    def say(self):
        self.mark += 1
        return Core("print", [Str("m%d" % self.mark)])

    def fault(self):
        """An expression that raises. Returns (node, is_thrown)."""
        r = self.r
        c = r.random()
        if c < 0.4:
            self.msgn += 1
            return App(Id("thrower"), [Int(r.choice([0, 0, 1, 3])), Str("boom%d" % self.msgn)]), True
        if c < 0.5:
            self.msgn += 1
            return Throw(Str("boom%d" % self.msgn)), True
        if c < 0.62:
            return App(Id("idxerr"), [Int(r.choice([0, 1, 2]))]), False
        if c < 0.7:
            return Idx(List([Int(1)]), Int(5)), False
        if c < 0.78:
            return Bin("+", Int(1), Str("a")), False
        if c < 0.86:
            return Core("assert", [Bool(False)]), False
        if c < 0.93:
            return App(Id("one"), []), False
        return Idx(Null(), Int(0)), False

    def site(self, f):
        """Embed the fault expression f in a statement at one of the position classes."""
        r = self.r
        c = r.random()
        if f["k"] == "throw":
            return [f]
        if c < 0.25:
            # the value is assigned: an operation whose result is unused may be elided (E1, unspecified)
            return [Asg(self.newvar(), f)] if f["k"] in ("bin", "idx") else [f]
        if c < 0.37:
            v = self.newvar()
            return [Asg(v, List([App(Id("t"), [Int(1)]), f, App(Id("t"), [Int(3)])]))]
        if c < 0.47:
            v = self.newvar()
            return [Asg(v, IStr([Str("pre "), f, Str(" post")])), Core("print", [Id(v)])]
        if c < 0.57:
            fn = Fn([Param("x")], Block([If([Cmp(["=="], [Id("x"), Int(2)])], [Block([f])], Block([Bin("*", Id("x"), Int(10))]))]))
            cons = r.choice(["to_tuple", "to_list", "count"])
            return [Asg("fe", fn), Core("print", [MCall(MCall(Tuple([Int(1), Int(2), Int(3)]), "each", [Id("fe")]), cons, [])])]
        if c < 0.65:
            fn = Fn([Param("acc"), Param("x")], Block([If([Cmp(["=="], [Id("x"), Int(2)])], [Block([f])], Block([Bin("+", Id("acc"), Id("x"))]))]))
            return [Asg("ff", fn), Core("print", [MCall(List([Int(1), Int(2), Int(3)]), "fold", [Int(0), Id("ff")])])]
        if c < 0.8:
            g = Fn([], Block([Yield(Int(1)), self.say(), self.as_stmt(f), Yield(Int(2))]), gen=True)
            how = r.choice(["for", "to_tuple", "next", "zip2", "zip1", "chain2", "zip_each"])
            if how in ("zip2", "zip1", "chain2", "zip_each"):
                # the failing generator (or a failing functor) feeds an adaptor with two inputs, as its first or its second input
                other = Tuple([Int(7), Int(8), Int(9)])
                if how == "zip2":
                    e = MCall(other, "zip", [App(Id("g"), [])])
                elif how == "zip1":
                    e = MCall(App(Id("g"), []), "zip", [other])
                elif how == "chain2":
                    e = MCall(Tuple([Int(7)]), "chain", [App(Id("g"), [])])
                else:
                    fn = Fn([Param("x")], Block([If([Cmp(["=="], [Id("x"), Int(2)])], [Block([self.as_stmt(f)])], Block([Id("x")]))]))
                    e = MCall(other, "zip", [MCall(Tuple([Int(1), Int(2), Int(3)]), "each", [fn])])
                if r.random() < 0.5:
                    return [Asg("g", g), For(["y"], e, Block([Core("print", [Id("y")])]))]
                return [Asg("g", g), Core("print", [MCall(e, r.choice(["to_tuple", "to_list", "count"]), [])])]
            if how == "for":
                return [Asg("g", g), For(["y"], App(Id("g"), []), Block([Core("print", [Id("y")])]))]
            if how == "to_tuple":
                return [Asg("g", g), Core("print", [MCall(App(Id("g"), []), "to_tuple", [])])]
            return [Asg("g", g), Asg("it", App(Id("g"), [])), Core("print", [MCall(Id("it"), "next", [])]),
                    Core("print", [MCall(Id("it"), "next", [])]), Core("print", [MCall(Id("it"), "next", [])])]
        if c < 0.86:
            # inside an overloaded operator (a nested execution on the same VM): an arithmetic operator, a comparison
            # operator the object defines, or one the runtime derives from @== / @< (!=, <=, >, >=)
            v = self.newvar()
            which = r.random()
            if which < 0.45:
                return [Asg("opf", Fn([Param("rhs")], Block([self.as_stmt(f), Int(1)]))),
                        Asg("obj", Map([], [], ["@+"], [Id("opf")])), Asg(v, Bin("+", Id("obj"), Int(1))), Core("print", [Id(v)])]
            keys = r.choice([["@=="], ["@<"], ["@==", "@<"], ["@<", "@=="]])
            op = r.choice(["==", "!=", "<", "<=", ">", ">="])
            # the comparison functions fail when they run; which ones run for `op` is the dispatch rule of C17
            return [Asg("opf", Fn([Param("rhs")], Block([self.as_stmt(f), Bool(True)]))),
                    Asg("obj", Map(["d"], [Int(1)], keys + ["@type"], [Id("opf") for _ in keys] + [Str("T")])),
                    Asg(v, Cmp([op], [Id("obj"), Int(1)])), Core("print", [Id(v)])]
        if c < 0.9:
            v = self.newvar()
            return [Asg(v, Map(["a", "b"], [App(Id("t"), [Int(1)]), f]))]
        v = self.newvar()
        return [Asg(v, Bin("+", App(Id("t"), [Int(2)]), f))]

    def as_stmt(self, f):
        """A fault in statement position: the value is assigned, because an operation whose result is
        unused may be elided (E1, treated as unspecified)."""
        return Asg(self.newvar(), f) if f["k"] in ("bin", "idx") else f

    def newvar(self):
        self.nv += 1
        v = "w%d" % self.nv
        return v

    def state_stmts(self):
        """Visible state: a counter and a list that are modified before faults and printed after handlers."""
        r = self.r
        c = r.random()
        if c < 0.5:
            return [OpAsg("cnt", "+", Int(1))]
        return [MCall(Id("lst"), "push", [Int(self.mark)])]

    def block(self, depth, in_fn, in_loop):
        r = self.r
        xs = [self.say()]
        for _ in range(r.randrange(1, 3)):
            xs += self.state_stmts()
        c = r.random()
        if depth > 0 and c < 0.2:
            xs += self.try_stmt(depth - 1, in_fn, in_loop)
        elif depth > 0 and c < 0.38:
            # a loop inside this block whose body contains a try that may leave the loop
            lv = "j%d" % self.mark
            body = Block(self.try_stmt(depth - 1, in_fn, lv) + [self.say()])
            xs.append(For([lv], Range(Int(0), Int(r.choice([1, 2, 3]))), body))
            # ... followed (sometimes) by a fault that the enclosing handler must receive
            if r.random() < 0.6:
                f, _ = self.fault()
                xs += self.site(f)
        elif c < 0.8:
            f, thrown = self.fault()
            xs += self.site(f)
        elif in_loop and c < 0.9:
            xs.append(If([Cmp([">="], [Id(in_loop), Int(1)])], [Block([r.choice([Break(), Continue()])])]))
        elif in_fn and c < 0.95:
            xs.append(Return(Int(self.mark)))
        xs.append(self.say())
        return xs

    def try_stmt(self, depth, in_fn, in_loop):
        r = self.r
        body = Block(self.block(depth, in_fn, in_loop))
        catches = []
        if r.random() < 0.4:
            ty = r.choice(["String", "Number", "String", "List"])
            catches.append(("e", ty, Block([self.say(), Core("print", [Core("type", [Id("e")])])] + self.catch_extra(depth, in_fn, in_loop))))
        catches.append(("e", "", Block([self.say(), Core("print", [Core("type", [Id("e")])]), Core("print", [Id("cnt")]),
                                        Core("print", [Id("lst")])] + self.catch_extra(depth, in_fn, in_loop))))
        fin = None
        if r.random() < 0.45:
            fin = Block([self.say()] + ([self.state_stmts()[0]] if r.random() < 0.5 else []))
        node = Try(body, catches, fin)
        if r.random() < 0.25:
            v = self.newvar()
            # value of the try expression (finally's value wins when present)
            node["b"]["xs"].append(Int(r.choice([1, 2])))
            for c in node["catches"]:
                c["b"]["xs"].append(Int(r.choice([3, 4])))
            if fin is not None:
                fin["xs"].append(Int(5))
            return [Asg(v, node), Core("print", [Id(v)])]
        return [node]

    def catch_extra(self, depth, in_fn, in_loop):
        r = self.r
        c = r.random()
        if in_loop and r.random() < 0.25:
            # leave the loop from inside the handler
            return [If([Cmp([">="], [Id(in_loop), Int(r.choice([0, 1]))])], [Block([r.choice([Break(), Continue()])])])]
        if in_fn and r.random() < 0.1:
            return [Return(Int(self.mark))]
        if c < 0.12:
            f, _ = self.fault()
            return [Asg(self.newvar(), f)] if f["k"] in ("bin", "idx") else [f]
        if c < 0.2 and depth > 0:
            return self.try_stmt(depth - 1, in_fn, in_loop)
        if c < 0.3:
            return [Throw(Id("e"))] if False else []
        return []

    def program(self):
        reset_ids()
        r = self.r
        self.mark = 0
        self.msgn = 0
        self.nv = 0
        xs = helpers() + [Asg("cnt", Int(0)), Asg("lst", List([]))]
        n = r.randrange(1, 4)
        for _ in range(n):
            c = r.random()
            if c < 0.5:
                xs += self.try_stmt(r.choice([0, 1, 2]), False, False)
            elif c < 0.75:
                # try inside a loop: exits by break / continue
                lv = "i%d" % self.mark
                body = Block(self.try_stmt(r.choice([0, 1]), False, lv) + [self.say()])
                xs.append(For([lv], Range(Int(0), Int(r.choice([1, 2, 3]))), body))
            else:
                # try inside a function: exits by return; the caller wraps the call in its own try
                fbody = Block(self.try_stmt(r.choice([0, 1]), True, False) + [Int(-1)])
                xs.append(Asg("fn%d" % self.mark, Fn([], fbody, free=["cnt", "lst", "thrower", "idxerr", "one", "t"])))
                call = App(Id("fn%d" % self.mark), [])
                xs += [Try(Block([Core("print", [call])]), [("e", "", Block([self.say(), Core("print", [Core("type", [Id("e")])])]))])]
            xs += [Core("print", [Id("cnt")]), Core("print", [Id("lst")])]
        if r.random() < 0.3:
            f, thrown = self.fault()      # uncaught at the end: the run must end with this error
            xs += self.site(f)
        xs.append(Id("cnt"))
        return Block(xs)


def programs(rng, n):
    g = ErrGen(rng)
    return [g.program() for _ in range(n)]
