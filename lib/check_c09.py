"""C09 — lexing is lossless and positions are exact. Lexer.tla is an accounting machine over the token stream of the real
lexer; every input string up to a length bound over a 22-symbol alphabet (plus corpus and random long inputs) is lexed
and the stream validated."""
import itertools, json, os, random
from concurrent.futures import ThreadPoolExecutor
import common, corpus

PROP = "C09"
ALPHABET = ["'", '"', "{", "}", "\\", "#", "-", "r", "1", ".", "e", "_", "x", "a", " ", "\t", "\r", "\n", ":", "é", "日", "😀",
            "\u0301"]


def validate(records, tag):
    """records: lex results. Returns list of BAD verdicts and stats."""
    shards = max(1, min(8, len(records) // 2000 or 1))
    parts = [records[i::shards] for i in range(shards)]
    paths = []
    for i, part in enumerate(parts):
        p = os.path.join(common.WORK, "lexed_%s_%d_%d.ndjson" % (tag, os.getpid(), i))
        with open(p, "w") as f:
            for r in part:
                f.write(json.dumps({"id": r["id"], "len": r["len"], "toks": r["toks"], "capped": r["capped"]}) + "\n")
        paths.append(p)

    def one(i):
        return common.run_tlc("Lexer", "Lexer.cfg", workers=2, env={"LEXED": paths[i]}, timeout=1800, coverage=False,
                              tag="%s_lex%d" % (tag, i), xmx="3g")

    with ThreadPoolExecutor(shards) as ex:
        results = list(ex.map(one, range(shards)))
    bad, states, trans = [], 0, 0
    for i, res in enumerate(results):
        if res.rc != 0:
            raise common.ToolError("Lexer.tla failed on shard %d:\n%s" % (i, res.stdout[-3000:]))
        bad += common.tlc_values(res, "BAD")
        states += res.distinct
        trans += res.states_generated
    for p in paths:
        os.remove(p)
    return bad, {"states": states, "transitions": trans}


def run(tier, seed):
    rep = common.Report(PROP, tier, "model_checking", seed)
    rng = random.Random(seed)
    quick = tier == "quick"
    maxlen = 3 if quick else 4
    inputs = [""]
    for n in range(1, maxlen + 1):
        inputs += ["".join(t) for t in itertools.product(ALPHABET, repeat=n)]
    n_exh = len(inputs)
    for _ in range(3000 if quick else 60000):
        inputs.append("".join(rng.choice(ALPHABET) for _ in range(rng.randrange(5, 41))))
    # structured random: fragments that reach deep modes
    frags = ["'a{", "}b'", '"', "r#'", "'#", "#-", "-#", "\\\n", "{x:", "1.5e-3", "_é", "_a", "x.y", "\r\n", "  ", "\t", "'{'{1}'}'", "{{", "}}",
             "r'{x}'", "0x1f", "é日", "😀", "..=", "->", "|a|", "@+"]
    for _ in range(3000 if quick else 60000):
        inputs.append("".join(rng.choice(frags + ALPHABET) for _ in range(rng.randrange(2, 14))))
    for s in corpus.sources():
        inputs.append(s["src"])
    # texts along the paths of the lexer's mode automaton (spec/LexGen.tla, the generator of C06): they reach string,
    # template, format-option, raw-string and nested-comment modes with line breaks of every kind inside them
    import re as _re
    lexgen_states = 0
    seen = set(inputs)
    for st, d in (("sq", 3), ("dq", 2), ("tmpl", 2), ("fmt", 3), ("tmplsq", 2), ("raw", 3 if quick else 4), ("cm", 3 if quick else 4), ("code", 2)):
        r = common.run_tlc("LexGen", "LexGen.cfg", workers=8, env={"START": st, "DEPTH": d}, timeout=1500, coverage=False, tag="c09_lexgen_" + st, xmx="6g")
        if r.rc != 0:
            raise common.ToolError("LexGen.tla (%s) failed:\n%s" % (st, r.stdout[-1500:]))
        lexgen_states += r.distinct
        for v in common.tlc_values(r, "TEXTS"):
            for x in v:
                for key in ("cut", "closed"):
                    t = _re.sub(r"U\+([0-9A-F]{4,6});", lambda m: chr(int(m.group(1), 16)), "".join(x[key]))
                    if t not in seen:
                        seen.add(t)
                        inputs.append(t)
    n_lexgen = len(inputs) - n_exh - 2 * (3000 if quick else 60000) - len(corpus.sources())
    jobs = [{"id": i, "src": s} for i, s in enumerate(inputs)]
    res = common.kv_parallel("lex", jobs, per_job_timeout=30)
    ok_records = []
    ntok = 0
    for job, r in zip(jobs, res):
        if r.get("status") != "ok":
            rep.violation("lex_%d" % job["id"], {"property": PROP, "why": "lexer %s: %s" % (r.get("status"), (r.get("err_msg") or "")[:300]), "input": job["src"]})
            continue
        ok_records.append(r)
        ntok += len(r["toks"])
    bad, st = validate(ok_records, "c09")
    for b in bad[:200]:
        src = inputs[b["id"]]
        rep.violation("lex_%d" % b["id"], {"property": PROP, "why": "token %d: %s" % (b["at"], b["why"]), "input": src,
                                           "tokens": [r for r in ok_records if r["id"] == b["id"]][0]["toks"][: b["at"] + 1]})
    rep.coverage = {
        "states": st["states"], "transitions": st["transitions"], "traces_validated_against_impl": len(ok_records),
        "samples": [{"input": inputs[5000], "tokens": [t["k"] for t in ok_records[5000]["toks"]]}],
        "evaluations": len(inputs), "distinct_nontrivial": len(set(inputs)),
        "rule": "every string of length <= %d over the %d-symbol alphabet %s (%d strings, exhaustive), %d random strings of length 5..40, "
                "%d strings of mode-reaching fragments, %d texts along the paths of the lexer's mode automaton (LexGen.tla: string, template, "
                "format-option, raw-string and nested-comment modes with LF, CRLF and CR inside them), and the corpus; each token stream "
                "validated against Lexer.tla up to the first Error token" % (maxlen, len(ALPHABET), json.dumps(ALPHABET, ensure_ascii=False), n_exh,
                                                                           3000 if quick else 60000, 3000 if quick else 60000, n_lexgen),
        "lexgen_texts": n_lexgen, "lexgen_states": lexgen_states,
        "tokens_validated": ntok, "exhaustive_strings": n_exh, "exhaustive": True,
    }
    rep.assumptions = ["a line break is '\\n' (so CRLF is one break)", "the unit of columns is not fixed by the property: checked are continuity, restart at zero after a break, monotonicity within a line",
                       "indentation is checked only on lines that begin in code (their break was a NewLine token)"]
    return rep.finish()


def replay(path):
    d = json.load(open(path))
    r = common.kv("lex", [{"id": 0, "src": d["input"]}])[0]
    if r.get("status") != "ok":
        print(r.get("status"), r.get("err_msg")); print("VIOLATION property=%s replay=%s" % (PROP, path)); return 1
    bad, _ = validate([r], "c09r")
    print(repr(d["input"])); print(bad)
    if bad:
        print("VIOLATION property=%s replay=%s" % (PROP, path)); return 1
    return 0
