"""Shared machinery for the /verif checks: TLC runner, harness runner, evidence, findings."""
import json, os, re, subprocess, sys, time, hashlib, shutil, signal

ROOT = os.path.dirname(os.path.dirname(os.path.abspath(__file__)))
SPEC = os.path.join(ROOT, "spec")
WORK = os.path.join(ROOT, "work")
HARNESS = os.path.join(ROOT, "harness")
EVID = os.path.join(ROOT, "evidence")
REPLAYS = os.path.join(WORK, "replays")
TLA_JAR = "/opt/veriftools/tla/tla2tools.jar"
TLA_CP = TLA_JAR + ":/opt/veriftools/tla/CommunityModules-deps.jar"
NCPU = os.cpu_count() or 4


class ToolError(Exception):
    """Something in the tooling failed (not a property violation): exit code 2."""


def log(*a):
    print(*a, file=sys.stderr, flush=True)


def ensure_dir(p):
    os.makedirs(p, exist_ok=True)
    return p


def seed_from_env(default=1):
    try:
        return int(os.environ.get("VERIF_SEED", default))
    except ValueError:
        return default


# ------------------------------------------------------------------------------------------------
# harness

_built = {}


def build_harness(flavor="rc"):
    """cargo build of the harness against /repo's current working tree (hooks on)."""
    if flavor in _built:
        return _built[flavor]
    env = dict(os.environ)
    env["CARGO_TARGET_DIR"] = os.path.join(HARNESS, "target-" + flavor)
    env["CARGO_NET_OFFLINE"] = "true"
    cmd = ["cargo", "build", "--offline", "-q"]
    if flavor == "arc":
        cmd += ["--no-default-features", "--features", "arc"]
    t0 = time.time()
    r = subprocess.run(cmd, cwd=HARNESS, env=env, stdout=subprocess.PIPE, stderr=subprocess.STDOUT, text=True)
    if r.returncode != 0:
        raise ToolError("harness build failed (%s):\n%s" % (flavor, r.stdout[-4000:]))
    exe = os.path.join(HARNESS, "target-" + flavor, "debug", "kv")
    log("[build] harness %s ok in %.1fs" % (flavor, time.time() - t0))
    _built[flavor] = exe
    return exe


def kv(cmd, jobs, flavor="rc", per_job_timeout=20.0, tag=None, extra_env=None):
    """Run a batch of jobs through `kv <cmd>`. A job that aborts the process or hangs is recorded
    as status=abort/hang (data, not a tool failure) and the batch continues after it."""
    exe = build_harness(flavor)
    ensure_dir(WORK)
    tag = tag or cmd
    path = os.path.join(WORK, "jobs_%s_%d.ndjson" % (tag, os.getpid()))
    with open(path, "w") as f:
        for j in jobs:
            f.write(json.dumps(j) + "\n")
    results = [None] * len(jobs)
    skip = 0
    env = dict(os.environ)
    if extra_env:
        env.update(extra_env)
    while skip < len(jobs):
        pre = None
        if extra_env and extra_env.get("KV_MEM_LIMIT"):
            def pre():                      # address-space limit: gigantic allocations fail fast instead of exhausting the machine
                import resource
                resource.setrlimit(resource.RLIMIT_AS, (6 << 30, 6 << 30))
        p = subprocess.Popen([exe, cmd, path, str(skip)], stdout=subprocess.PIPE, stderr=subprocess.PIPE,
                             text=True, env=env, preexec_fn=pre)
        current = None
        import selectors
        sel = selectors.DefaultSelector()
        sel.register(p.stdout, selectors.EVENT_READ)
        buf = b""
        last = time.time()
        dead = False
        fd = p.stdout.fileno()
        os.set_blocking(fd, False)
        while True:
            ev = sel.select(timeout=1.0)
            if ev:
                try:
                    chunk = os.read(fd, 1 << 20)
                except BlockingIOError:
                    chunk = None
                if chunk == b"":
                    break
                if chunk:
                    last = time.time()
                    buf += chunk                  # bytes: a chunk may end inside a multi-byte character
                    while b"\n" in buf:
                        line, buf = buf.split(b"\n", 1)
                        if not line.strip():
                            continue
                        o = json.loads(line.decode("utf-8", "replace"))
                        if "begin" in o and len(o) == 1:
                            current = o["begin"]
                        else:
                            results[current] = o
                            current = None
            if time.time() - last > per_job_timeout:
                p.kill()
                dead = True
                break
        p.wait()
        sel.close()
        if current is not None and results[current] is None:
            st = "hang" if dead else "abort"
            err = ""
            try:
                err = p.stderr.read()[-2000:]
            except Exception:
                pass
            results[current] = {"id": jobs[current].get("id"), "status": st, "err_msg": err}
            skip = current + 1
        else:
            if p.returncode not in (0, None) and not dead:
                err = p.stderr.read()[-2000:]
                if p.returncode == 2:
                    raise ToolError("kv %s failed: %s" % (cmd, err))
            # finished (or died between jobs)
            nxt = None
            for i in range(skip, len(jobs)):
                if results[i] is None:
                    nxt = i
                    break
            if nxt is None:
                break
            if p.returncode == 0 and not (nxt > 0 and isinstance(results[nxt - 1], dict) and results[nxt - 1].get("exit_after")):
                raise ToolError("kv %s: job %d produced no result" % (cmd, nxt))
            skip = nxt          # the harness left after a job whose threads cannot be recovered: carry on after it
    try:
        os.remove(path)
    except OSError:
        pass
    return results


def kv_parallel(cmd, jobs, flavor="rc", shards=None, **kw):
    """Shard a batch over several kv processes."""
    from concurrent.futures import ThreadPoolExecutor
    build_harness(flavor)
    shards = shards or min(NCPU, max(1, len(jobs) // 50))
    if shards <= 1:
        return kv(cmd, jobs, flavor, **kw)
    parts = [jobs[i::shards] for i in range(shards)]
    with ThreadPoolExecutor(shards) as ex:
        futs = [ex.submit(kv, cmd, part, flavor, tag="%s_s%d" % (cmd, i), **kw) for i, part in enumerate(parts)]
        outs = [f.result() for f in futs]
    res = [None] * len(jobs)
    for i, o in enumerate(outs):
        for k, r in enumerate(o):
            res[i + k * shards] = r
    return res


# ------------------------------------------------------------------------------------------------
# TLC

class TlcResult:
    def __init__(self):
        self.stdout = ""
        self.rc = None
        self.states_generated = 0
        self.distinct = 0
        self.depth = 0
        self.coverage = {}  # action name -> (distinct, total)
        self.prints = []  # values printed with PrintT (raw text lines)
        self.invariant_violated = None
        self.error_text = None
        self.wall_s = 0.0


def run_tlc(module, cfg, workers=4, env=None, timeout=600, simulate=None, depth=None, seed=None,
            coverage=True, xss="1g", xmx="4g", deque=False, extra=None, tag=None, deadlock=False):
    """Run TLC on spec/<module>.tla with spec/<cfg>. Returns a TlcResult (stdout parsed)."""
    ensure_dir(WORK)
    tag = tag or (module + "_" + os.path.splitext(os.path.basename(cfg))[0])
    meta = os.path.join(WORK, "tlc_%s_%d" % (tag, os.getpid()))
    shutil.rmtree(meta, ignore_errors=True)
    jopts = "-Xss%s" % xss
    if deque:
        jopts += " -Dtlc2.tool.queue.IStateQueue=StateDeque"
    e = dict(os.environ)
    e["JAVA_TOOL_OPTIONS"] = jopts
    if env:
        e.update({k: str(v) for k, v in env.items()})
    cmd = ["java", "-XX:+UseParallelGC", "-Xmx" + xmx, "-cp", TLA_CP, "tlc2.TLC",
           "-workers", str(workers), "-metadir", meta, "-cleanup", "-noGenerateSpecTE",
           "-config", cfg]
    if coverage:
        cmd += ["-coverage", "1"]
    if not deadlock:
        cmd += ["-deadlock"]  # -deadlock disables deadlock checking
    if simulate is not None:
        cmd += ["-simulate", "num=%d" % simulate]
    if depth is not None:
        cmd += ["-depth", str(depth)]
    if seed is not None:
        cmd += ["-seed", str(seed)]
    if extra:
        cmd += extra
    cmd += [module + ".tla"]
    t0 = time.time()
    try:
        r = subprocess.run(cmd, cwd=SPEC, env=e, stdout=subprocess.PIPE, stderr=subprocess.STDOUT, text=True,
                           timeout=timeout)
    except subprocess.TimeoutExpired as ex:
        shutil.rmtree(meta, ignore_errors=True)
        raise ToolError("TLC timed out after %ss on %s/%s" % (timeout, module, cfg))
    shutil.rmtree(meta, ignore_errors=True)
    res = TlcResult()
    res.stdout = r.stdout
    res.rc = r.returncode
    res.wall_s = time.time() - t0
    parse_tlc(res)
    return res


_cov_re = re.compile(r"^<(\w+) line \d+, col \d+ to line \d+, col \d+ of module (\w+)>: (\d+):(\d+)")


def parse_tlc(res):
    out = res.stdout
    m = None
    for m in re.finditer(r"(\d+) states generated, (\d+) distinct states found", out):
        pass
    if m:
        res.states_generated = int(m.group(1))
        res.distinct = int(m.group(2))
    m = re.search(r"The depth of the complete state graph search is (\d+)", out)
    if m:
        res.depth = int(m.group(1))
    for line in out.splitlines():
        c = _cov_re.match(line)
        if c:
            res.coverage[c.group(1)] = (int(c.group(3)), int(c.group(4)))
    m = re.search(r"Invariant (\w+) is violated", out)
    if m:
        res.invariant_violated = m.group(1)
    m = re.search(r"Error: (.*)", out)
    if m and res.rc != 0:
        res.error_text = out[m.start(): m.start() + 3000]
    return res


def tlc_ok(res, what):
    """Raise ToolError unless TLC finished cleanly (rc 0)."""
    if res.rc != 0:
        raise ToolError("TLC failed on %s (rc=%s):\n%s" % (what, res.rc, res.stdout[-3000:]))


def tlc_values(res, marker):
    """Extract TLA+ values printed as <<"MARKER", "json...">> — json text produced by ToJson."""
    vals = []
    pat = '<<"%s", "' % marker
    for line in res.stdout.splitlines():
        if line.startswith(pat) and line.endswith('">>'):
            body = line[len(pat):-3]
            # TLC prints the string with backslash escapes for quotes and backslashes
            body = body.encode("utf-8").decode("unicode_escape").encode("latin-1").decode("utf-8") \
                if "\\" in body else body
            vals.append(json.loads(body))
    return vals


def sany(module):
    r = subprocess.run(["java", "-cp", TLA_CP, "tla2sany.SANY", module + ".tla"], cwd=SPEC,
                       stdout=subprocess.PIPE, stderr=subprocess.STDOUT, text=True)
    if r.returncode != 0 or "error" in r.stdout.lower().replace("semantic errors:\n", "x") and "Semantic errors" in r.stdout:
        raise ToolError("SANY failed on %s:\n%s" % (module, r.stdout[-3000:]))
    return True


# ------------------------------------------------------------------------------------------------
# findings / violations / evidence

def load_known():
    p = os.path.join(ROOT, "known_findings.json")
    if not os.path.exists(p):
        return {"findings": [], "fixed": []}
    return json.load(open(p))


class Report:
    """Collects violations / known findings for one check run and writes the evidence file."""

    def __init__(self, prop, tier, level, seed):
        self.prop = prop
        self.tier = tier
        self.level = level
        self.seed = seed
        self.t0 = time.time()
        self.violations = []
        self.known_hits = []
        self.coverage = {}
        self.assumptions = []
        self.known = [f for f in load_known().get("findings", []) if prop in f.get("properties", [f.get("property")])]

    def violation(self, case_id, payload):
        d = ensure_dir(os.path.join(REPLAYS, self.prop))
        name = re.sub(r"[^A-Za-z0-9_.-]", "_", str(case_id))[:80]
        path = os.path.join(d, name + ".json")
        with open(path, "w") as f:
            json.dump(payload, f, indent=1, sort_keys=True, default=str)
        self.violations.append(path)
        print("VIOLATION property=%s replay=%s" % (self.prop, path), flush=True)

    def known_finding(self, fid, what):
        self.known_hits.append(fid)
        print("KNOWN-FINDING: property=%s %s: %s" % (self.prop, fid, what), flush=True)

    def finish(self):
        ensure_dir(EVID)
        cov = dict(self.coverage)
        ev = {
            "property_id": self.prop,
            "tier": self.tier,
            "seed": self.seed,
            "level": self.level,
            "coverage": cov,
            "assumptions": self.assumptions,
            "wall_s": round(time.time() - self.t0, 2),
            "violations": len(self.violations),
            "known_findings_observed": self.known_hits,
        }
        with open(os.path.join(EVID, self.prop + ".json"), "w") as f:
            json.dump(ev, f, indent=1, sort_keys=True, default=str)
        return 1 if self.violations else 0


def sha(s):
    return hashlib.sha256(s.encode("utf-8")).hexdigest()[:16]
