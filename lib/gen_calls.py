"""Program generators for C02: argument binding matrix, closures, generators."""
import itertools, random
from kast import *
import gen_core

# ---- A. binding matrix ---------------------------------------------------------------------------------
PARAM_KINDS = ["pos", "defl", "defc", "var", "tup2", "tuprl", "tuprf", "map2", "wild"]


def valid_param_list(kinds):
    seen_def = False
    for i, k in enumerate(kinds):
        if k == "var" and i != len(kinds) - 1:
            return False
        if k in ("defl", "defc"):
            seen_def = True
        elif seen_def and k != "var":
            return False          # guide: all arguments following an optional argument must be optional
    return True


def arg_pool(kind):
    """(matching argument thunks, mismatching argument thunks) for a parameter kind."""
    if kind == "tup2":
        return ([lambda: Tuple([Int(1), Int(2)]), lambda: List([Int(3), Int(4)])],
                [lambda: List([Int(1), Int(2), Int(3)]), lambda: Int(5), lambda: Tuple([Int(9)])])
    if kind in ("tuprl", "tuprf"):
        return ([lambda: Tuple([Int(1), Int(2)]), lambda: Tuple([Int(1), Int(2), Int(3)]), lambda: Tuple([Int(9)]),
                 lambda: List([Int(1), Int(2), Int(3)])],
                [lambda: Tuple([]), lambda: Int(5)])
    if kind == "map2":
        return ([lambda: Map(["x", "y"], [Int(1), Int(2)]), lambda: Map(["y", "z", "x"], [Int(7), Int(8), Int(9)])],
                [lambda: Map(["x"], [Int(1)]), lambda: Int(5)])
    return ([None], [])   # plain: distinct ints are filled in by position


def arg_combos(kinds, nargs):
    """All-matching combinations, plus combinations with exactly one mismatching argument."""
    n = len(kinds)
    good = [arg_pool(kinds[i])[0] if i < n else [None] for i in range(nargs)]
    bad = [arg_pool(kinds[i])[1] if i < n else [] for i in range(nargs)]
    out = list(itertools.product(*good))
    for i in range(nargs):
        for b in bad[i]:
            out.append(tuple(b if j == i else good[j][0] for j in range(nargs)))
    return out


def build_fn(kinds):
    params, defaults, names = [], [], []
    for i, k in enumerate(kinds):
        n = "p%d" % i
        if k == "pos":
            params.append(Param(n)); names.append(n)
        elif k == "defl":
            params.append(Param(n, "def")); defaults.append(Int(70 + i)); names.append(n)
        elif k == "defc":
            params.append(Param(n, "def")); defaults.append(Id("k")); names.append(n)
        elif k == "var":
            params.append(Param(n, "var")); names.append(n)
        elif k == "tup2":
            params.append(Param(n, "pat", pat=PTup([PId(n + "a"), PId(n + "b")]))); names += [n + "a", n + "b"]
        elif k == "tuprl":
            params.append(Param(n, "pat", pat=PTup([PId(n + "a")], "last", n + "r"))); names += [n + "a", n + "r"]
        elif k == "tuprf":
            params.append(Param(n, "pat", pat=PTup([PId(n + "z")], "first", n + "r"))); names += [n + "r", n + "z"]
        elif k == "map2":
            params.append(Param(n, "pat", pat=PMap(["x", "y"], [n + "x", n + "y"]))); names += [n + "x", n + "y"]
        elif k == "wild":
            params.append(Param("_", "pat", pat=PWild("_")))
    body = Block([Tuple([Id(x) for x in names] + [Id("c")])])
    free = ["c", "k"]
    return Fn(params, body, defaults, free)


def binding_matrix(max_params=3, rng=None, sample=None):
    cases = []
    for n in range(0, max_params + 1):
        for kinds in itertools.product(PARAM_KINDS, repeat=n):
            if not valid_param_list(kinds):
                continue
            for nargs in range(0, n + 3):
                for combo in arg_combos(kinds, nargs):
                    for form in ("paren", "free", "pipe", "spread", "method"):
                        if form in ("free", "pipe") and nargs == 0:
                            continue
                        cases.append((kinds, nargs, combo, form))
    if sample is not None and rng is not None and len(cases) > sample:
        cases = rng.sample(cases, sample)
    for kinds, nargs, combo, form in cases:
        reset_ids()
        args = [(mk() if mk is not None else Int(10 * (i + 1))) for i, mk in enumerate(combo)]
        pre = [Asg("c", Int(-5)), Asg("k", Int(-6))]
        fn = build_fn(kinds)
        if form == "method":
            pre.append(Asg("m", Map(["f", "v"], [fn, Int(3)])))
            call = MCall(Id("m"), "f", args)
        else:
            pre.append(Asg("f", fn))
            if form == "spread":
                pre.append(Asg("xs", Tuple(args)))
                call = App(Id("f"), [Spread(Id("xs"))])
            else:
                call = App(Id("f"), args, form=form)
        # reassigning the captured variables after creation must not be visible (capture by copy)
        post = [Asg("c", Int(100)), Asg("k", Int(200))]
        yield Block(pre + post + [Asg("r", call), Core("print", [Id("r")]), Id("r")])


def binding_all_lists(max_params=3):
    """Every valid parameter list of <= max_params parameters x every argument count 0..n+2, parenthesised call,
    first all-matching argument combination: complete over the arity dimension."""
    for n in range(0, max_params + 1):
        for kinds in itertools.product(PARAM_KINDS, repeat=n):
            if not valid_param_list(kinds):
                continue
            for nargs in range(0, n + 3):
                combo = arg_combos(kinds, nargs)[0]
                reset_ids()
                args = [(mk() if mk is not None else Int(10 * (i + 1))) for i, mk in enumerate(combo)]
                yield Block([Asg("c", Int(-5)), Asg("k", Int(-6)), Asg("f", build_fn(kinds)), Asg("c", Int(100)),
                             Asg("k", Int(200)), Asg("r", App(Id("f"), args)), Core("print", [Id("r")]), Id("r")])


def spread_matrix(rng=None, sample4=60):
    """Calls whose arguments are plain values or unpacked containers (guide: Packed / spread arguments `f xs...`): every
    sequence of 1..3 arguments over {plain, () ..., (x,)..., (x, y)..., [x, y, z]...}, a sample of 4-argument calls, against a
    variadic callee, a callee with a default and a rest parameter, and a generator."""
    kinds = ["plain", "s0", "s1", "s2", "s3"]
    seqs = [seq for n in (1, 2, 3) for seq in itertools.product(kinds, repeat=n)]
    four = list(itertools.product(kinds, repeat=4))
    if rng is not None:
        seqs += rng.sample(four, sample4)
    for seq in seqs:
        for callee in ("var", "defrest", "gen"):
            reset_ids()
            k = [0]
            def val():
                k[0] += 1
                return Int(k[0])
            args = []
            for a in seq:
                if a == "plain":
                    args.append(val())
                elif a == "s3":
                    args.append(Spread(List([val(), val(), val()])))
                else:
                    args.append(Spread(Tuple([val() for _ in range(int(a[1]))])))
            if callee == "var":
                fn = Fn([Param("xs", "var")], Block([Id("xs")]))
                use = App(Id("f"), args)
            elif callee == "defrest":
                fn = Fn([Param("p"), Param("q", "def"), Param("rest", "var")], Block([Tuple([Id("p"), Id("q"), Id("rest")])]), defaults=[Str("dq")])
                use = App(Id("f"), args)
            else:
                fn = Fn([Param("p", "def"), Param("rest", "var")], Block([Yield(Id("p")), Yield(Id("rest"))]), defaults=[Str("dp")], gen=True)
                use = MCall(App(Id("f"), args), "to_tuple", [])
            yield Block([Asg("f", fn), Try(Block([Asg("r", use), Core("print", [Id("r")])]), [("e", "", Block([Core("print", [Str("error")])]))]), Str("end")])


# ---- B. closures ----------------------------------------------------------------------------------------
class CallGen(gen_core.Gen):
    """Extends the core statement generator with function definitions, calls, closures and generators."""

    def __init__(self, rng, max_depth=3):
        super().__init__(rng, max_depth, tracer=True)
        self.fns = {}      # name -> (min_args, max_args or None)

    def fn_def(self, sc, depth, nest=0):
        r = self.r
        name = sc.fresh("f")
        inner = gen_core.Scope(sc)
        inner.frozen = set()
        inner.captured = set(sc.vars)
        inner.cond = False
        params, defaults = [], []
        npos = r.randrange(0, 3)
        for i in range(npos):
            pn = inner.fresh("a")
            params.append(Param(pn)); inner.vars[pn] = "num"
        ndef = r.choice([0, 0, 1])
        for i in range(ndef):
            pn = inner.fresh("d")
            params.append(Param(pn, "def"))
            defaults.append(self.expr(sc, "num", 1) if r.random() < 0.6 else List([]))
            inner.vars[pn] = "num" if defaults[-1]["k"] != "list" else "list"
        has_var = r.random() < 0.2
        if has_var:
            pn = inner.fresh("r")
            params.append(Param(pn, "var")); inner.vars[pn] = "tuple"
        # recursion: the function may call itself with a decreasing counter
        recursive = npos >= 1 and r.random() < 0.25
        stmts = []
        if recursive:
            first = params[0]["n"]
            stmts.append(If([Cmp(["<="], [Id(first), Int(0)])], [Block([Return(self.expr(inner, "num", 1))])]))
        k = r.randrange(1, 4)
        for _ in range(k):
            c = r.random()
            if c < 0.15 and nest < 2:
                stmts.append(self.fn_def(inner, depth - 1, nest + 1))
            elif c < 0.3:
                stmts.append(self.call_stmt(inner))
            else:
                st = self.stmt(inner, max(1, depth - 1), False)
                stmts += st["xs"] if st["k"] == "block" else [st]
        if recursive:
            rec_args = [Bin("-", Id(params[0]["n"]), Int(1))] + [self.expr(inner, "num", 1) for _ in range(npos - 1)]
            stmts.append(Bin("+", App(Id(name), rec_args), Int(1)))
        elif r.random() < 0.3:
            stmts.append(Return(self.expr(inner, self.any_kind(), 2)))
        else:
            t = self.tail(inner)
            stmts += t["xs"] if t["k"] == "block" else [t]
        body = Block(stmts)
        free = ids_read(body)
        for d in defaults:
            pass
        free -= {p["n"] for p in params}
        fn = Fn(params, body, defaults, free)
        sc.vars[name] = "fn"
        self.fns[name] = (npos, None if has_var else npos + ndef)
        return Asg(name, fn)

    def call_expr(self, sc):
        r = self.r
        fs = [v for v, k in sc.vars.items() if k == "fn" and v in self.fns]
        if not fs:
            return self.expr(sc, "num", 1)
        f = r.choice(fs)
        lo, hi = self.fns[f]
        n = r.randrange(lo, (hi if hi is not None else lo + 2) + 1)
        if r.random() < 0.12:
            n = max(0, lo - 1) if r.random() < 0.5 else (hi + 1 if hi is not None else n)
        args = [self.expr(sc, "num", 1) if i > 0 else Int(r.choice([0, 1, 2, 3])) for i in range(n)]
        return App(Id(f), args)

    def call_stmt(self, sc):
        r = self.r
        c = self.call_expr(sc)
        if r.random() < 0.5:
            n = sc.fresh()
            sc.vars[n] = "any"
            return Asg(n, c)
        return Core("print", [c])

    def program(self, nstmts=None):
        reset_ids()
        self.fns = {}
        r = self.r
        sc = gen_core.Scope()
        xs = [Asg("t", Fn([Param("x")], Block([Core("print", [Id("x")]), Id("x")])))]
        n = nstmts or r.randrange(4, 10)
        for _ in range(n):
            c = r.random()
            if c < 0.3:
                xs.append(self.fn_def(sc, 2))
            elif c < 0.6:
                xs.append(self.call_stmt(sc))
            else:
                s = self.stmt(sc, 2, False)
                xs += s["xs"] if s["k"] == "block" else [s]
        for v, k in sorted(sc.vars.items()):
            if k != "fn":
                xs.append(Core("print", [Id(v)]))
        xs.append(self.call_expr(sc))
        return Block(xs)


def closure_templates(rng):
    """Hand-shaped closure programs with random parameters (guide: Captured Variables, Optional Arguments)."""
    out = []
    a, b, c = rng.choice([1, 2, 5]), rng.choice([10, 20]), rng.choice([3, 4])

    def P(xs):
        return Block(xs)

    # capture by copy; reassignment after creation invisible; += inside is call-local
    reset_ids()
    out.append(P([Asg("x", Int(a)), Asg("f", Fn([Param("n")], Block([Bin("+", Id("n"), Id("x"))]), free=["x"])),
                  Asg("x", Int(b)), Core("print", [App(Id("f"), [Int(c)])]), Id("x")]))
    reset_ids()
    out.append(P([Asg("x", Int(a)), Asg("f", Fn([], Block([OpAsg("x", "+", Int(1))]), free=["x"])),
                  Tuple([App(Id("f"), []), App(Id("f"), []), App(Id("f"), []), Id("x")])]))
    # a captured variable read in the expression that re-assigns it, after a nested expression (if / match / call of a
    # function literal): the captured value is read, the assignment is call-local
    for nested in (lambda: If([Cmp([">"], [Id("k"), Int(0)])], [Block([Int(2)])], Block([Int(3)])),
                   lambda: Switch([Cmp(["=="], [Id("k"), Int(1)])], [Block([Int(10)])], Block([Int(20)])) if False else
                   If([Cmp(["=="], [Id("k"), Int(1)])], [Block([App(Fn([Param("q")], Block([Id("q")])), [Int(10)])])], Block([Int(20)])),
                   lambda: App(Fn([], Block([Int(7)])), []),
                   lambda: Tuple([Int(1), Int(2)]) if False else Neg(Int(4))):
        reset_ids()
        out.append(P([Asg("x", Int(a)), Asg("k", Int(1)),
                      Asg("f", Fn([], Block([Asg("x", Bin("-", nested(), Id("x"))), Id("x")]), free=["x", "k"])),
                      Tuple([App(Id("f"), []), App(Id("f"), []), Id("x")])]))
    # containers reached through captures stay shared
    reset_ids()
    out.append(P([Asg("data", Map(["x"], [Int(a)])),
                  Asg("f", Fn([], Block([DOpAsg(Id("data"), "x", "+", Int(1))]), free=["data"])),
                  App(Id("f"), []), App(Id("f"), []), Dot(Id("data"), "x")]))
    reset_ids()
    out.append(P([Asg("l", List([])), Asg("f", Fn([Param("v")], Block([MCall(Id("l"), "push", [Id("v")])]), free=["l"])),
                  App(Id("f"), [Int(a)]), App(Id("f"), [Int(b)]), Asg("l2", Id("l")), Asg("l", List([Int(0)])),
                  App(Id("f"), [Int(c)]), Tuple([Id("l"), Id("l2")])]))
    # default values evaluated once, shared mutable default
    reset_ids()
    out.append(P([Asg("f", Fn([Param("v"), Param("vs", "def")], Block([MCall(Id("vs"), "push", [Id("v")])]),
                              defaults=[List([])])),
                  Core("print", [App(Id("f"), [Int(a)])]), Core("print", [App(Id("f"), [Int(b)])]),
                  App(Id("f"), [Int(c), List([Int(0)])])]))
    reset_ids()
    out.append(P([Asg("z", Int(a)), Asg("f", Fn([Param("x", "def")], Block([OpAsg("x", "+", Int(1)), Id("x")]),
                                                  defaults=[Id("z")])),
                  Asg("z", Int(b)), Tuple([App(Id("f"), []), App(Id("f"), []), App(Id("f"), [Int(c)])])]))
    # recursion and self reference
    reset_ids()
    out.append(P([Asg("fact", Fn([Param("n")], Block([If([Cmp(["<="], [Id("n"), Int(1)])], [Block([Int(1)])],
                                                          Block([Bin("*", Id("n"), App(Id("fact"), [Bin("-", Id("n"), Int(1))]))]))]),
                                 free=["fact"])),
                  App(Id("fact"), [Int(rng.choice([0, 1, 4, 6]))])]))
    # functions created in a loop capture the loop variable's value at creation
    reset_ids()
    out.append(P([Asg("fs", List([])),
                  For(["i"], Range(Int(0), Int(c)), Block([MCall(Id("fs"), "push", [Fn([], Block([Bin("*", Id("i"), Int(a))]), free=["i"])])])),
                  Asg("out", List([])),
                  For(["g"], Id("fs"), Block([MCall(Id("out"), "push", [App(Id("g"), [])])])), Id("out")]))
    # ... also when the function is first assigned to a name that every iteration assigns again (the functions made earlier
    # keep their own captured values and default values)
    reset_ids()
    out.append(P([Asg("fs", List([])),
                  For(["i"], Range(Int(0), Int(c)), Block([Asg("g", Fn([Param("x")], Block([Bin("+", Bin("*", Id("i"), Int(a)), Id("x"))]), free=["i"])),
                                                            MCall(Id("fs"), "push", [Id("g")])])),
                  Asg("out", List([])),
                  For(["h"], Id("fs"), Block([MCall(Id("out"), "push", [App(Id("h"), [Int(b)])])])), Id("out")]))
    reset_ids()
    out.append(P([Asg("mk", Fn([Param("count")], Block([
                      Asg("cs", List([])), Asg("n", Int(0)),
                      While(Cmp(["<"], [Id("n"), Id("count")]), Block([Asg("counter", Fn([], Block([Bin("+", Id("n"), Int(a))]), free=["n"])),
                                                                        MCall(Id("cs"), "push", [Id("counter")]), OpAsg("n", "+", Int(1))])),
                      Id("cs")]))),
                  Asg("out", List([])),
                  For(["h"], App(Id("mk"), [Int(c)]), Block([MCall(Id("out"), "push", [App(Id("h"), [])])])), Id("out")]))
    reset_ids()
    out.append(P([Asg("fs", List([])),
                  For(["i"], Range(Int(0), Int(c)), Block([Asg("g", Fn([Param("x", "def")], Block([Bin("+", Id("x"), Int(a))]), defaults=[Id("i")])),
                                                            MCall(Id("fs"), "push", [Id("g")])])),
                  Asg("out", List([])),
                  For(["h"], Id("fs"), Block([MCall(Id("out"), "push", [App(Id("h"), [])])])), Id("out")]))
    reset_ids()
    out.append(P([Asg("first", Null()),
                  For(["i"], Range(Int(1), Int(c + 1)), Block([Asg("sq", Fn([], Block([Bin("*", Id("i"), Id("i"))]), free=["i"])),
                                                                If([Cmp(["=="], [Id("i"), Int(1)])], [Block([Asg("first", Fn([], Block([App(Id("sq"), [])]), free=["sq"]))])])])),
                  App(Id("first"), [])]))
    # a function left from inside a string or a list that is being built: the caller's own string / list is unaffected
    reset_ids()
    out.append(P([Asg("f", Fn([], Block([IStr([Str("a"), Return(Int(a)), Str("b")])]))),
                  Core("print", [IStr([Str("X"), App(Id("f"), []), Str("Y")])]), List([Int(0), App(Id("f"), []), Int(9)])]))
    reset_ids()
    out.append(P([Asg("h", Fn([Param("n")], Block([Asg("l", List([Int(1), If([Cmp([">"], [Id("n"), Int(0)])], [Block([Return(Id("n"))])], Block([Int(2)])), Int(3)])), Id("l")]))),
                  Core("print", [IStr([Str("L"), App(Id("h"), [Int(b)]), Str("R")])]), Tuple([App(Id("h"), [Int(0)]), App(Id("h"), [Int(c)])])]))
    reset_ids()
    out.append(P([Asg("g", Fn([], Block([For(["i"], Range(Int(0), Int(3)), Block([Asg("s", IStr([Str("n"), If([Cmp(["=="], [Id("i"), Int(1)])], [Block([Break()])], Block([Id("i")])), Str("m")]))])), Str("done")]))),
                  Core("print", [IStr([Str("P"), App(Id("g"), []), Str("Q")])]), Str("end")]))
    # nested closures: inner captures from the middle frame, which captured from the outer
    reset_ids()
    inner = Fn([Param("q")], Block([Bin("+", Bin("+", Id("q"), Id("p")), Id("x"))]), free=["p", "x"])
    mid = Fn([Param("p")], Block([Asg("x2", Id("x")), inner]), free=["x"])
    out.append(P([Asg("x", Int(a)), Asg("mk", mid), Asg("h", App(Id("mk"), [Int(b)])), Asg("x", Int(1000)),
                  App(Id("h"), [Int(c)])]))
    # methods receive their container as self
    reset_ids()
    out.append(P([Asg("m", Map(["name", "get"], [Int(a), Fn([Param("k")], Block([Bin("+", Dot(Id("self"), "name"), Id("k"))]), free=["self"])])),
                  Core("print", [MCall(Id("m"), "get", [Int(b)])]), DAsg(Id("m"), "name", Int(c)),
                  MCall(Id("m"), "get", [Int(b)])]))
    # pipe == call
    reset_ids()
    out.append(P([Asg("add", Fn([Param("x"), Param("y")], Block([Bin("-", Id("x"), Id("y"))]))),
                  Asg("r1", App(Id("add"), [Int(a), Int(b)], form="pipe")), Asg("r2", App(Id("add"), [Int(a), Int(b)])),
                  Tuple([Id("r1"), Id("r2")])]))
    # too few / too many
    reset_ids()
    out.append(P([Asg("f", Fn([Param("x"), Param("y")], Block([Id("x")]))), App(Id("f"), [Int(a)])]))
    reset_ids()
    out.append(P([Asg("f", Fn([Param("x")], Block([Id("x")]))), App(Id("f"), [Int(a), Int(b)])]))
    return out


# ---- C. generators ----------------------------------------------------------------------------------------
def generator_program(rng):
    """A generator function with yields in loops/ifs/after early return, consumed in one of several ways,
    with prints interleaved so that laziness and resume-where-paused are visible in the output order."""
    reset_ids()
    r = rng
    body = []
    nparams = r.choice([0, 1, 1, 2])
    params = [Param("a%d" % i) for i in range(nparams)]
    pv = [Id(p["n"]) for p in params]

    def val():
        c = r.random()
        if pv and c < 0.4:
            return Bin(r.choice(["+", "*"]), r.choice(pv), Int(r.choice([1, 2, 3])))
        if c < 0.6:
            return Id("cap")
        return Int(r.choice([1, 2, 3, 7]))

    n = r.randrange(1, 5)
    mark = [0]

    def say():
        mark[0] += 1
        return Core("print", [Str("g%d" % mark[0])])

    for _ in range(n):
        c = r.random()
        if c < 0.35:
            body += [say(), Yield(val())]
        elif c < 0.6:
            body.append(For(["j"], Range(Int(0), Int(r.choice([0, 1, 2, 3]))), Block([say(), Yield(Bin("+", Id("j"), val()))])))
        elif c < 0.75:
            body.append(If([Cmp([r.choice(["<", ">="])], [val(), Int(3)])], [Block([Yield(val()), say()])],
                           Block([say()]) if r.random() < 0.5 else None))
        elif c < 0.85:
            body.append(If([Cmp([">"], [val(), Int(r.choice([2, 5]))])], [Block([say(), Return()])]))
        else:
            i = "w%d" % mark[0]
            body += [Asg(i, Int(0)), While(Cmp(["<"], [Id(i), Int(r.choice([1, 2]))]),
                                           Block([OpAsg(i, "+", Int(1)), Yield(Bin("*", Id(i), Int(10))), say()]))]
    if not any(x["k"] == "yield" for x in _walk(Block(body))):
        body.append(Yield(Int(0)))
    g = Fn(params, Block(body), free=["cap"], gen=True)
    args = [Int(r.choice([0, 1, 2, 5])) for _ in params]
    xs = [Asg("cap", Int(r.choice([1, 4]))), Asg("gen", g), Asg("cap", Int(99))]
    mode = r.choice(["for", "next", "to_tuple", "to_list", "for_break", "two", "each", "keep", "sum", "fold"])
    mk = lambda: App(Id("gen"), list(args))
    if mode == "for":
        xs.append(For(["v"], mk(), Block([Core("print", [Id("v")])])))
    elif mode == "for_break":
        xs.append(For(["v"], mk(), Block([Core("print", [Id("v")]), If([Cmp([">"], [Id("v"), Int(r.choice([1, 3, 10]))])],
                                                                         [Block([Break()])])])))
        xs.append(Core("print", [Str("after")]))
    elif mode == "next":
        xs.append(Asg("it", mk()))
        for _ in range(r.randrange(1, 5)):
            xs += [Core("print", [Str("pull")]), Core("print", [MCall(Id("it"), "next", [])])]
    elif mode in ("to_tuple", "to_list", "sum"):
        xs.append(Core("print", [MCall(mk(), mode, [])]))
    elif mode == "two":
        # two generators from one function advance independently
        xs += [Asg("i1", mk()), Asg("i2", mk()), Core("print", [MCall(Id("i1"), "next", [])]),
               Core("print", [MCall(Id("i1"), "next", [])]), Core("print", [MCall(Id("i2"), "next", [])]),
               Core("print", [MCall(Id("i1"), "next", [])])]
    elif mode == "each":
        f = Fn([Param("x")], Block([Core("print", [Str("f")]), Bin("*", Id("x"), Int(2))]))
        xs += [Asg("fe", f), Asg("it", MCall(mk(), "each", [Id("fe")])), Core("print", [Str("made")]),
               Core("print", [MCall(Id("it"), "to_tuple", [])])]
    elif mode == "keep":
        f = Fn([Param("x")], Block([Cmp([">"], [Id("x"), Int(r.choice([1, 3, 8]))])]))
        xs += [Asg("it", MCall(mk(), "keep", [f])), Core("print", [MCall(Id("it"), "next", [])]),
               Core("print", [MCall(Id("it"), "to_list", [])])]
    elif mode == "fold":
        f = Fn([Param("acc"), Param("x")], Block([Bin("+", Bin("*", Id("acc"), Int(2)), Id("x"))]))
        xs.append(Core("print", [MCall(mk(), "fold", [Int(0), f])]))
    xs.append(Core("print", [Str("end")]))
    xs.append(Id("cap"))
    return Block(xs)


def _walk(n):
    yield n
    for c in children(n):
        if c["k"] != "fn":
            yield from _walk(c)


def chain_programs(rng, n):
    """Call chains over iterables (guide: Iterators): each / keep with inline functions whose bodies end in a literal, a
    variable or a call, followed by consumers; the value is assigned and printed.  They exist for the layout checks
    (a chain broken across indented lines, calls without parentheses, inside redundant parentheses)."""
    out = []
    for _ in range(n):
        reset_ids()
        r = rng
        src = r.choice([lambda: Tuple([Int(3), Int(-5), Int(1), Int(4)]), lambda: List([Int(2), Int(7), Int(0)]), lambda: Range(Int(0), Int(5))])()
        links = []
        for j in range(r.randrange(1, 4)):
            v = "v%d" % j
            kind = r.random()
            if kind < 0.5:
                body = r.choice([lambda: Cmp(["<"], [Id(v), Int(r.choice([0, 2, 4]))]), lambda: Cmp([">="], [Id(v), Id("lim")]),
                                 lambda: Cmp(["!="], [Id(v), App(Id("one"), [Int(3)])])])()
                links.append(("keep", [Fn([Param(v)], Block([body]), free=["lim", "one"])]))
            else:
                body = r.choice([lambda: Bin("*", Id(v), Int(r.choice([2, 10]))), lambda: Bin("+", Id(v), Id("lim")),
                                 lambda: Bin("-", Id(v), App(Id("one"), [Int(1)])), lambda: Tuple([Id(v), Int(1)])])()
                links.append(("each", [Fn([Param(v)], Block([body]), free=["lim", "one"])]))
        cons = r.choice([("to_tuple", []), ("to_list", []), ("count", []), ("fold", None)])
        e = MCall(src, "iter", []) if r.random() < 0.3 else src
        for m, args in links:
            e = MCall(e, m, args)
        if cons[0] == "fold":
            e = MCall(e, "fold", [Int(0), Fn([Param("acc"), Param("x")], Block([Bin("+", Id("acc"), Core("size", [Tuple([Id("x")])]))]))])
        else:
            e = MCall(e, cons[0], [])
        out.append(Block([Asg("lim", Int(r.choice([1, 3]))), Asg("one", Fn([Param("a")], Block([Id("a")]))), Asg("res", e),
                          Core("print", [Id("res")]), Id("res")]))
    return out


def bracket_programs(rng, n):
    """Lists, tuples and call arguments whose elements are calls of named one-argument functions, some of them negated with
    `not`: inside brackets such calls may be written without parentheses (the layout check's subject)."""
    out = []
    for _ in range(n):
        reset_ids()
        r = rng
        def call():
            f = r.choice(["ev", "neg1", "idf"])
            a = r.choice([lambda: Int(r.choice([0, 3, 4, 7])), lambda: Id("k"), lambda: Str("s"), lambda: Bool(True)])()
            if r.random() < 0.3:
                # a method of a named map: `mo.add k` -- as an element it may be written as a chain broken over two lines
                return MCall(Id("mo"), r.choice(["add", "sub"]), [r.choice([lambda: Int(r.choice([1, 5])), lambda: Id("k")])()])
            c = App(Id(f), [a])
            return Not(c) if r.random() < 0.4 else c
        def elems():
            return [call() if r.random() < 0.75 else Int(r.choice([9, 99])) for _ in range(r.randrange(2, 5))]
        xs = [Asg("ev", Fn([Param("n")], Block([Cmp(["=="], [Bin("%", Core("size", [Tuple([Id("n"), Id("n")])]), Int(2)), Int(0)])]))),
              Asg("neg1", Fn([Param("n")], Block([Tuple([Str("neg"), Id("n")])]))), Asg("idf", Fn([Param("n")], Block([Id("n")]))),
              Asg("pair", Fn([Param("x"), Param("y", "def")], Block([Tuple([Id("x"), Id("y")])]), defaults=[Str("missing")])),
              Asg("k", Int(r.choice([1, 2]))),
              Asg("mo", Map(["add", "sub"], [Fn([Param("p"), Param("q", "def")], Block([Bin("+", Id("p"), Id("q"))]), defaults=[Int(10)]),
                                              Fn([Param("p"), Param("q", "def")], Block([Bin("-", Id("p"), Id("q"))]), defaults=[Int(100)])]))]
        xs.append(Asg("a", List(elems())))
        xs.append(Asg("b", Tuple(elems())))
        xs.append(Asg("c", App(Id("pair"), [call(), call()])))
        xs += [Core("print", [Id("a")]), Core("print", [Id("b")]), Core("print", [Id("c")]), Id("a")]
        out.append(Block(xs))
    return out
