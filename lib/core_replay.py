"""Spec -> implementation replay for the KotoCore machine.

  programs (syntax trees)  --TLC: KotoCoreRun-->  predicted observation per program
  programs --render (contexts x layouts)--> Koto text --kv run--> actual observation
  compare.
"""
import json, os, random, time
from concurrent.futures import ThreadPoolExecutor
import common, kast


def predict(progs, tag="core", shards=8, workers_per=2, timeout=900, dev=()):
    """progs: list of {id, ast}. Returns {id: prediction} and TLC stats (states, transitions).
    dev: names of modelled deviations (known findings) enabled for this batch."""
    common.ensure_dir(common.WORK)
    for pr in progs:
        kast.annotate_free(pr["ast"])
        pr.setdefault("dev", list(dev))
    shards = max(1, min(shards, len(progs) // 20 or 1))
    parts = [progs[i::shards] for i in range(shards)]
    paths = []
    for i, part in enumerate(parts):
        p = os.path.join(common.WORK, "progs_%s_%d_%d.ndjson" % (tag, os.getpid(), i))
        with open(p, "w") as f:
            for pr in part:
                f.write(json.dumps(pr) + "\n")
        paths.append(p)

    oracle_errors = []

    def one(i):
        """Run the oracle on one shard. A program on which the machine itself fails (a TLC evaluation error:
        a gap in the specification, not a property violation) is dropped, recorded, and the shard re-run."""
        part = parts[i]
        merged = None
        for attempt in range(12):
            res = common.run_tlc("KotoCoreRun", "KotoCoreRun.cfg", workers=workers_per, env={"PROGS": paths[i]},
                                 timeout=timeout, coverage=False, tag="%s_pred%d" % (tag, i), xmx="3g")
            if merged is None:
                merged = res
            else:
                merged.stdout += res.stdout
                merged.distinct += res.distinct
                merged.states_generated += res.states_generated
            if res.rc == 0:
                merged.rc = 0
                return merged
            import re
            m = re.search(r"/\\ idx = (\d+)", res.stdout) or re.search(r"idx = (\d+)", res.stdout)
            if not m:
                merged.rc = res.rc
                return merged
            bad = int(m.group(1)) - 1
            done = {v["id"] for v in common.tlc_values(merged, "PRED")}
            with open(os.path.join(common.WORK, "oracle_error_%s_%s.log" % (tag, part[bad]["id"])), "w") as f:
                f.write(res.stdout[-20000:])
            oracle_errors.append(part[bad]["id"])
            part = [p for k, p in enumerate(part) if k != bad and p["id"] not in done]
            if not part:
                merged.rc = 0
                return merged
            with open(paths[i], "w") as f:
                for pr in part:
                    f.write(json.dumps(pr) + "\n")
        merged.rc = 1
        return merged

    with ThreadPoolExecutor(shards) as ex:
        results = list(ex.map(one, range(shards)))
    preds = {}
    states = 0
    trans = 0
    for i, res in enumerate(results):
        if res.rc != 0:
            raise common.ToolError("TLC oracle failed on shard %d:\n%s" % (i, res.stdout[-3000:]))
        for v in common.tlc_values(res, "PRED"):
            preds[v["id"]] = v
        states += res.distinct
        trans += res.states_generated
    for p in paths:
        try:
            os.remove(p)
        except OSError:
            pass
    for pid in oracle_errors:
        preds[pid] = {"id": pid, "status": "unspec", "why": "oracle-evaluation-error", "out": []}
    if len(oracle_errors) > max(3, len(progs) // 200):
        raise common.ToolError("the oracle failed to evaluate %d programs (see work/oracle_error_*.log)" % len(oracle_errors))
    missing = [p["id"] for p in progs if p["id"] not in preds]
    if missing:
        raise common.ToolError("TLC oracle produced no prediction for %d programs (e.g. %s)" % (len(missing), missing[:3]))
    return preds, {"states": states, "transitions": trans}


def compare(pred, act, check_value=True):
    """Return None when the actual observation matches the prediction, else a short reason."""
    st = act.get("status")
    if st in ("panic", "abort", "hang"):
        return "implementation %s: %s" % (st, (act.get("err_msg") or "")[:200])
    exp_out = "".join(l + "\n" for l in pred["out"])
    if pred["status"] == "ok":
        if st != "ok":
            return "expected ok, got %s (%s)" % (st, (act.get("err_head") or act.get("err_msg") or "")[:200])
        if act.get("stdout") != exp_out:
            return "stdout differs"
        if check_value and pred.get("observable"):
            if act.get("value") != pred["value"]:
                return "result value differs: expected %r got %r" % (pred["value"], act.get("value"))
        if check_value and pred.get("vtype") not in ("?", None) and pred.get("observable") and act.get("vtype") != pred["vtype"]:
            return "result type differs: expected %r got %r" % (pred["vtype"], act.get("vtype"))
        return None
    if pred["status"] == "err":
        if st == "compile_error":
            return "expected runtime error, got compile error: %s" % (act.get("err_msg") or "")[:200]
        if st != "runtime_error":
            return "expected error (%s), got %s value=%r" % (pred.get("kind"), st, act.get("value"))
        if act.get("stdout") != exp_out:
            return "stdout before the error differs"
        if pred["cls"] == "thrown":
            if act.get("err_class") != "thrown":
                return "expected a thrown error, got class %s" % act.get("err_class")
            if act.get("err_head") != pred["msg"]:
                return "thrown message differs: expected %r got %r" % (pred["msg"], act.get("err_head"))
        else:
            if act.get("err_class") in ("timeout", "internal"):
                return "expected a runtime error, got class %s" % act.get("err_class")
        return None
    return None  # unspec / fuel: nothing to compare


def variants(ast, rng, n_layouts, contexts, with_lines=False):
    """Render one program in several contexts and layouts. Returns list of (variant_name, source)
    (or (variant_name, source, continuation line set) with with_lines)."""
    out = []
    for ctx in contexts:
        tree = ast
        if ctx.startswith("fn"):
            tree = kast.wrap_in_function(ast, extra_locals=int(ctx[2:] or 0))
        src, cont = kast.render_with_lines(tree)
        out.append((ctx + "/canon", src, cont) if with_lines else (ctx + "/canon", src))
        for li in range(n_layouts):
            lay = kast.Layout(random.Random(rng.getrandbits(32)), comments=(li % 2 == 1), chains=not with_lines)
            src, cont = kast.render_with_lines(tree, lay)
            out.append(("%s/l%d" % (ctx, li), src, cont) if with_lines else ("%s/l%d" % (ctx, li), src))
    return out


def replay(progs, preds, report, rng, n_layouts=1, contexts=("top", "fn0", "fn3"), flavor="rc", known_gap=None,
           limit_ms=5000):
    """Run every decided program in every variant; report mismatches as violations.
    Returns stats dict."""
    jobs = []
    index = []
    decided = 0
    skipped = {"unspec": 0, "fuel": 0}
    unspec_why = {}
    used_dev = {}
    for p in progs:
        pr = preds[p["id"]]
        if pr["status"] in ("unspec", "fuel"):
            skipped[pr["status"]] += 1
            if pr["status"] == "unspec":
                unspec_why[pr.get("why", "?")] = unspec_why.get(pr.get("why", "?"), 0) + 1
            continue
        try:
            vs = variants(p["ast"], rng, n_layouts, contexts)
        except ValueError:
            # the renderer has no layout for this tree (e.g. a function with a block body inside a call argument)
            skipped["unrenderable"] = skipped.get("unrenderable", 0) + 1
            continue
        decided += 1
        for u in pr.get("used", []):
            used_dev[u] = used_dev.get(u, 0) + 1
        for name, src in vs:
            jobs.append({"id": "%s|%s" % (p["id"], name), "src": src, "limit_ms": limit_ms})
            index.append((p, pr, name))
    results = common.kv_parallel("run", jobs, flavor=flavor) if jobs else []
    bad = 0
    for job, (p, pr, name), act in zip(jobs, index, results):
        why = compare(pr, act)
        if why:
            bad += 1
            report.violation("%s_%s" % (p["id"], name.replace("/", "_")),
                             {"property": report.prop, "program_id": p["id"], "variant": name, "why": why,
                              "source": job["src"], "ast": p["ast"], "predicted": pr, "actual": act})
    return {"decided": decided, "skipped": skipped, "unspec_reasons": unspec_why, "runs": len(jobs),
            "mismatches": bad, "deviations_used": used_dev}


def family_check(prop, tier, seed, families, rule, assumptions, contexts_quick=("top", "fn0", "fn3"),
                 contexts_thorough=("top", "fn0", "fn3", "fn40"), extra=None, dev=()):
    """Generic driver for the KotoCore-based checks.
    families: list of (name, [ast...], n_layouts_quick, n_layouts_thorough, contexts or None)."""
    import kast
    rep = common.Report(prop, tier, "model_checking", seed)
    rng = random.Random(seed * 7919 + 13)
    progs = []
    for name, asts, lq, lt, ctx in families:
        for i, ast in enumerate(asts):
            progs.append({"id": "%s_%d" % (name, i), "ast": ast, "_fam": name})
    preds, st = predict([{"id": p["id"], "ast": p["ast"]} for p in progs], tag=prop.lower(), shards=8, dev=dev)
    stats = {"decided": 0, "runs": 0, "unspec": 0, "fuel": 0, "reasons": {}, "per_family": {}, "dev": {}}
    for name, asts, lq, lt, ctx in families:
        fam = [p for p in progs if p["_fam"] == name]
        if not fam:
            continue
        contexts = ctx or (contexts_quick if tier == "quick" else contexts_thorough)
        s = replay(fam, preds, rep, rng, n_layouts=lq if tier == "quick" else lt, contexts=contexts)
        stats["decided"] += s["decided"]
        stats["runs"] += s["runs"]
        stats["unspec"] += s["skipped"]["unspec"]
        stats["fuel"] += s["skipped"]["fuel"]
        for k, v in s["unspec_reasons"].items():
            stats["reasons"][k] = stats["reasons"].get(k, 0) + v
        for k, v in s["deviations_used"].items():
            stats["dev"][k] = stats["dev"].get(k, 0) + v
        stats["per_family"][name] = {"programs": len(fam), "decided": s["decided"], "runs": s["runs"]}
    samples = []
    for name, asts, lq, lt, ctx in families:
        if asts:
            samples.append({"family": name, "source": kast.render(asts[0])})
    rep.coverage = {
        "states": st["states"], "transitions": st["transitions"],
        "traces_validated_against_impl": stats["runs"],
        "samples": samples[:6],
        "evaluations": stats["runs"],
        "distinct_nontrivial": stats["decided"],
        "rule": rule,
        "programs": len(progs),
        "discarded_unspecified": stats["unspec"], "discarded_fuel": stats["fuel"],
        "unspec_reasons": stats["reasons"], "per_family": stats["per_family"],
        "known_finding_deviations_enabled": list(dev), "programs_decided_by_a_deviation_rule": stats["dev"],
        "exhaustive": False,
    }
    if extra:
        rep.coverage.update(extra)
    rep.assumptions = assumptions
    return rep, preds, progs


def generic_replay(prop, path):
    d = json.load(open(path))
    res = common.kv("run", [{"id": "replay", "src": d["source"], "limit_ms": 5000}])
    why = compare(d["predicted"], res[0])
    print(d["source"])
    print("predicted:", d["predicted"])
    print("actual:", {k: res[0].get(k) for k in ("status", "value", "stdout", "err_head")})
    if why:
        print("VIOLATION property=%s replay=%s" % (prop, path))
        return 1
    return 0


def pinned_known_findings(rep, prop):
    """Run the pinned inputs of every finding recorded for `prop`. For each, TLC computes the ideal
    prediction and the as-is prediction (finding's deviation rule enabled). The implementation must agree
    with one of them: ideal => the defect is gone (silent); as-is => KNOWN-FINDING; neither => VIOLATION."""
    import known_cases, kast
    n = 0
    for fid, (p, mk) in known_cases.CASES.items():
        if p != prop:
            continue
        recorded = [f for f in rep.known if f["id"] == fid]
        if not recorded:
            continue
        cases = mk()
        ideal, _ = predict([{"id": cid, "ast": ast, "dev": []} for cid, ast in cases], tag=prop.lower() + "_pin_i", shards=1)
        asis, _ = predict([{"id": cid, "ast": ast, "dev": [fid]} for cid, ast in cases], tag=prop.lower() + "_pin_a", shards=1)
        jobs = [{"id": cid, "src": kast.render(ast), "limit_ms": 5000} for cid, ast in cases]
        results = common.kv("run", jobs)
        listed = {c["case"]: c for c in recorded[0].get("inputs", [])}
        for (cid, ast), job, act in zip(cases, jobs, results):
            n += 1
            if compare(ideal[cid], act) is None:
                continue                       # behaves as specified: nothing to report
            why_asis = compare(asis[cid], act)
            if why_asis is None and cid in listed and listed[cid]["source"] == job["src"]:
                rep.known_finding(fid, "%s: %s" % (cid, recorded[0]["what"]))
            else:
                rep.violation("pinned_%s" % cid, {"property": prop, "finding": fid, "case": cid, "source": job["src"],
                                                  "why": "pinned known-finding input fails differently from what is recorded: %s" % why_asis,
                                                  "predicted": ideal[cid], "predicted_as_is": asis[cid], "actual": act})
    return n
