"""Program generators for C16: hint positions x hint names x values."""
import itertools
from kast import *

VALUES = [
    ("null", lambda: Null()), ("true", lambda: Bool(True)), ("0", lambda: Int(0)), ("1.5", lambda: Flt(3, 1)), ("''", lambda: Str("")),
    ("'a'", lambda: Str("a")), ("()", lambda: Tuple([])), ("(1,2)", lambda: Tuple([Int(1), Int(2)])), ("[]", lambda: List([])),
    ("[1]", lambda: List([Int(1)])), ("{}", lambda: Map([], [])), ("{a:1}", lambda: Map(["a"], [Int(1)])),
    ("1..3", lambda: Range(Int(1), Int(3))), ("fn", lambda: Fn([Param("q")], Block([Id("q")]))),
    ("iter", lambda: MCall(List([Int(1)]), "iter", [])),
    ("foo", lambda: Id("foo")), ("bar", lambda: Id("bar")), ("baz", lambda: Id("baz")), ("untyped_child", lambda: Id("child")),
]
HINTS = ["Any", "Callable", "Indexable", "Iterable", "Number", "String", "Bool", "Null", "List", "Tuple", "Map", "Range", "Function",
         "Iterator", "Foo", "Bar", "Baz", "Number?", "Foo?", "List?", "Any?"]


def objects():
    """foo: @type Foo; bar: @type Bar with base foo; baz: @type Baz, base bar (chain depth 2); child: base foo, no own @type"""
    return [Asg("foo", Map(["n"], [Int(1)], ["@type"], [Str("Foo")])),
            Asg("bar", Map(["n"], [Int(2)], ["@type", "@base"], [Str("Bar"), Id("foo")])),
            Asg("baz", Map(["n"], [Int(3)], ["@type", "@base"], [Str("Baz"), Id("bar")])),
            Asg("child", Map(["n"], [Int(4)], ["@base"], [Id("foo")]))]


def guarded(stmts):
    return Try(Block(stmts + [Core("print", [Str("pass")])]), [("e", "", Block([Core("print", [Str("error")])]))])


def programs():
    for (vn, mk), hint in itertools.product(VALUES, HINTS):
        for pos in ("let", "for", "arg", "ret", "yield", "match", "catch"):
            reset_ids()
            xs = objects() + [Asg("v", mk())]
            if pos == "let":
                xs.append(guarded([Let("x", hint, Id("v"))]))
            elif pos == "for":
                xs.append(guarded([For(["x"], Tuple([Id("v")]), Block([Asg("y", Int(1))]), tys=[hint])]))
            elif pos == "arg":
                xs += [Asg("f", Fn([Param("x", ty=hint)], Block([Int(1)]))), guarded([Asg("r", App(Id("f"), [Id("v")]))])]
            elif pos == "ret":
                xs += [Asg("f", Fn([Param("x")], Block([Id("x")]), ret=hint)), guarded([Asg("r", App(Id("f"), [Id("v")]))])]
            elif pos == "yield":
                xs += [Asg("g", Fn([Param("x")], Block([Yield(Id("x"))]), gen=True, ret=hint)),
                       guarded([Asg("r", MCall(App(Id("g"), [Id("v")]), "next", []))])]
            elif pos == "match":
                xs += [Asg("r", Match(Id("v"), [Arm([PTyped("x", hint)], Block([Str("arm1")])),
                                                Arm([PTyped("x", "Number")], Block([Str("arm2")]))], Block([Str("else")]))),
                       Core("print", [Id("r")])]
            else:
                if vn not in ("''", "'a'", "foo", "bar", "baz", "untyped_child"):
                    continue
                xs.append(Try(Block([Throw(Id("v"))]), [("e", hint, Block([Core("print", [Str("typed")])])),
                                                        ("e", "", Block([Core("print", [Str("untyped")])]))]))
            xs.append(Str("end"))
            yield Block(xs)
