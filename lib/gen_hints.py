"""Program generators for C16: hint positions x hint names x values."""
import itertools
from kast import *

VALUES = [
    ("null", lambda: Null()), ("true", lambda: Bool(True)), ("0", lambda: Int(0)), ("1.5", lambda: Flt(3, 1)), ("''", lambda: Str("")),
    ("'a'", lambda: Str("a")), ("()", lambda: Tuple([])), ("(1,2)", lambda: Tuple([Int(1), Int(2)])), ("[]", lambda: List([])),
    ("[1]", lambda: List([Int(1)])), ("{}", lambda: Map([], [])), ("{a:1}", lambda: Map(["a"], [Int(1)])),
    ("1..3", lambda: Range(Int(1), Int(3))), ("fn", lambda: Fn([Param("q")], Block([Id("q")]))),
    ("iter", lambda: MCall(List([Int(1)]), "iter", [])),
    ("foo", lambda: Id("foo")), ("bar", lambda: Id("bar")), ("baz", lambda: Id("baz")), ("untyped_child", lambda: Id("child")),
]
HINTS = ["Any", "Callable", "Indexable", "Iterable", "Number", "String", "Bool", "Null", "List", "Tuple", "Map", "Range", "Function",
         "Iterator", "Foo", "Bar", "Baz", "Number?", "Foo?", "List?", "Any?", "Callable?", "Indexable?", "Iterable?", "Null?"]


def objects():
    """foo: @type Foo; bar: @type Bar with base foo; baz: @type Baz, base bar (chain depth 2); child: base foo, no own @type"""
    return [Asg("foo", Map(["n"], [Int(1)], ["@type"], [Str("Foo")])),
            Asg("bar", Map(["n"], [Int(2)], ["@type", "@base"], [Str("Bar"), Id("foo")])),
            Asg("baz", Map(["n"], [Int(3)], ["@type", "@base"], [Str("Baz"), Id("bar")])),
            Asg("child", Map(["n"], [Int(4)], ["@base"], [Id("foo")]))]


def guarded(stmts):
    return Try(Block(stmts + [Core("print", [Str("pass")])]), [("e", "", Block([Core("print", [Str("error")])]))])


def programs():
    for (vn, mk), hint in itertools.product(VALUES, HINTS):
        for pos in ("let", "for", "arg", "ret", "ret_explicit", "ret_if", "ret_loop", "ret_or", "yield", "match", "catch", "mlet_ign", "mlet_id", "mlet_bare", "mlet_call", "for2", "for2_ign"):
            reset_ids()
            xs = objects() + [Asg("v", mk())]
            if pos == "let":
                xs.append(guarded([Let("x", hint, Id("v"))]))
            elif pos == "for":
                xs.append(guarded([For(["x"], Tuple([Id("v")]), Block([Asg("y", Int(1))]), tys=[hint])]))
            elif pos.startswith("mlet"):
                # several targets: the hinted one is an ignored target or a named one, in the middle; the RHS is a list
                # (iterated), a bare tuple (indexed) or a call result; the targets after it must get the right elements
                mid = "_" if pos == "mlet_ign" else ("_skip" if pos == "mlet_call" else "b")
                elems = [Int(1), Id("v"), Bool(True)]
                if pos == "mlet_bare":
                    rhs, bare = Tuple(elems), True
                elif pos == "mlet_call":
                    xs.append(Asg("mk", Fn([], Block([List(elems)]))))
                    rhs, bare = App(Id("mk"), []), False
                else:
                    rhs, bare = List(elems), False
                xs.append(guarded([MLet(["a", mid, "c"], ["Number", hint, "Bool"], rhs, bare), Core("print", [Tuple([Id("a"), Id("c")])])]))
            elif pos == "for2_ign":
                # a hinted ignored argument in the middle: the arguments after it must still get their own elements
                xs.append(guarded([For(["i", "_", "k"], Tuple([Tuple([Int(1), Id("v"), Int(3)]), Tuple([Int(4), Id("v"), Int(6)])]),
                                       Block([Core("print", [Tuple([Id("i"), Id("k")])])]), tys=["Number", hint, "Number"])]))
            elif pos == "for2":
                xs.append(guarded([For(["i", "x", "k"], Tuple([Tuple([Int(1), Id("v"), Int(3)])]), Block([Core("print", [Tuple([Id("i"), Id("k")])])]),
                                       tys=["Number", hint, ""])]))
            elif pos == "arg":
                xs += [Asg("f", Fn([Param("x", ty=hint)], Block([Int(1)]))), guarded([Asg("r", App(Id("f"), [Id("v")]))])]
            elif pos == "ret":
                xs += [Asg("f", Fn([Param("x")], Block([Id("x")]), ret=hint)), guarded([Asg("r", App(Id("f"), [Id("v")]))])]
            elif pos == "ret_explicit":
                xs += [Asg("f", Fn([Param("x")], Block([Return(Id("x")), Int(0)]), ret=hint)), guarded([Asg("r", App(Id("f"), [Id("v")]))])]
            elif pos == "ret_if":
                # an early return in value position, feeding an assignment: the returned value is what the hint is about
                xs += [Asg("f", Fn([Param("x")], Block([Asg("y", If([Bool(False)], [Block([Int(0)])], Block([Return(Id("x"))]))), Str("late")]), ret=hint)),
                       guarded([Asg("r", App(Id("f"), [Id("v")]))])]
            elif pos == "ret_loop":
                # ... where the assigned variable already holds a value of another kind from the iteration before
                xs += [Asg("f", Fn([Param("x")], Block([For(["k"], Tuple([Int(1), Int(2)]),
                                                            Block([Asg("y", If([Cmp(["=="], [Id("k"), Int(1)])], [Block([Int(5)])], Block([Return(Id("x"))])))])),
                                                        Str("late")]), ret=hint)),
                       guarded([Asg("r", App(Id("f"), [Id("v")]))])]
            elif pos == "ret_or":
                xs += [Asg("f", Fn([Param("x")], Block([Asg("y", Or(Null(), Return(Id("x")))), Str("late")]), ret=hint)),
                       guarded([Asg("r", App(Id("f"), [Id("v")]))])]
            elif pos == "yield":
                xs += [Asg("g", Fn([Param("x")], Block([Yield(Id("x"))]), gen=True, ret=hint)),
                       guarded([Asg("r", MCall(App(Id("g"), [Id("v")]), "next", []))])]
            elif pos == "match":
                xs += [Asg("r", Match(Id("v"), [Arm([PTyped("x", hint)], Block([Str("arm1")])),
                                                Arm([PTyped("x", "Number")], Block([Str("arm2")]))], Block([Str("else")]))),
                       Core("print", [Id("r")])]
            else:
                if vn not in ("''", "'a'", "foo", "bar", "baz", "untyped_child"):
                    continue
                xs.append(Try(Block([Throw(Id("v"))]), [("e", hint, Block([Core("print", [Str("typed")])])),
                                                        ("e", "", Block([Core("print", [Str("untyped")])]))]))
            xs.append(Str("end"))
            yield Block(xs)
