"""The repository's own Koto sources: test scripts, benchmarks, and the ```koto blocks of the documentation
(with the docs' `print!`/`check!` directives resolved the way crates/test_utils/src/doc_examples.rs does)."""
import glob, os, re

REPO = "/repo"


def doc_blocks(path):
    out = []
    txt = open(path, encoding="utf-8").read()
    for m in re.finditer(r"```koto([^\n]*)\n(.*?)```", txt, re.S):
        flags, body = m.group(1), m.group(2)
        lines = []
        for l in body.split("\n"):
            s = l.strip()
            if s.startswith("check!"):
                continue
            if s.startswith("print!"):
                l = l.replace("print!", "print", 1)
            lines.append(l)
        src = "\n".join(lines)
        out.append({"src": src, "skip_run": "skip_run" in flags or "skip_check" in flags})
    return out


def sources(run_only=False):
    """List of {name, src, path (for imports), runnable}."""
    out = []
    for p in sorted(glob.glob(REPO + "/koto/tests/*.koto") + glob.glob(REPO + "/koto/benches/*.koto")):
        out.append({"name": os.path.relpath(p, REPO), "src": open(p, encoding="utf-8").read(), "path": p,
                    "runnable": "/tests/" in p and not p.endswith(("io.koto", "os.koto"))})
    for p in sorted(glob.glob(REPO + "/docs/*.md") + glob.glob(REPO + "/docs/core_lib/*.md")):
        for i, b in enumerate(doc_blocks(p)):
            rel = os.path.relpath(p, REPO)
            risky = any(x in rel for x in ("io.md", "os.md")) or "os." in b["src"] or "io." in b["src"] or "import" in b["src"]
            out.append({"name": "%s#%d" % (rel, i), "src": b["src"], "path": None,
                        "runnable": not b["skip_run"] and not risky})
    if run_only:
        out = [s for s in out if s["runnable"]]
    return out


_TOKEN = re.compile(r"\s+|[A-Za-z_][A-Za-z_0-9]*|\d+(?:\.\d+)?|'[^'\n]*'|\"[^\"\n]*\"|\.\.=|\.\.|->|[-+*/%^<>=!]=|[^\sA-Za-z_0-9]")


def token_neighbourhood(src, rng, limit):
    """Single-token delete / duplicate / swap variants of a source text (positions sampled)."""
    toks = [t for t in _TOKEN.findall(src)]
    idx = [i for i, t in enumerate(toks) if t.strip()]
    out = []
    if len(idx) < 2:
        return out
    for _ in range(limit):
        i = rng.choice(idx)
        kind = rng.choice(("del", "dup", "swap"))
        t = list(toks)
        if kind == "del":
            t[i] = ""
        elif kind == "dup":
            t[i] = t[i] + " " + t[i]
        else:
            j = rng.choice(idx)
            t[i], t[j] = t[j], t[i]
        out.append("".join(t))
    return out
