"""C02 — functions, closures, generators: KotoCore machine as oracle, replayed into the implementation."""
import random
import common, core_replay, gen_calls

PROP = "C02"
ASSUME = ["KotoCore.tla encodes docs/language_guide.md (Functions, Advanced Functions, Generators); programs the "
          "guide does not decide are discarded", "kast.render prints the syntax tree it is given"]


def run(tier, seed):
    rng = random.Random(seed)
    quick = tier == "quick"
    fams = [
        ("bind", list(gen_calls.binding_matrix(3, rng, 1500 if quick else 40000)), 1, 2, ("top", "fn0")),
        ("bind2", list(gen_calls.binding_matrix(2)) if not quick else list(gen_calls.binding_matrix(1)), 0, 1, ("top",)),
        ("binda", list(gen_calls.binding_all_lists(3)), 0, 1, ("top",)),
        ("spread", list(gen_calls.spread_matrix(rng, 60 if quick else 625)), 0, 1, ("top", "fn0")),
        ("clo", [a for _ in range(12 if quick else 200) for a in gen_calls.closure_templates(rng)], 1, 3, None),
    ]
    g = gen_calls.CallGen(rng)
    fams.append(("call", [g.program() for _ in range(300 if quick else 8000)], 1, 3, None))
    fams.append(("gen", [gen_calls.generator_program(rng) for _ in range(300 if quick else 8000)], 1, 3, None))
    rep, preds, progs = core_replay.family_check(
        PROP, tier, seed, fams,
        rule="binding matrix: every parameter list of <=3 parameters over {positional, default(literal|captured), "
             "variadic, (a,b), (a,rest...), (rest...,z), {x,y}, _} x 0..n+2 arguments (matching / one mismatching) x "
             "call form {f(a,b), f a, b, a -> f b, f xs..., m.f(a)} (sampled in quick, all <=2-parameter lists in "
             "thorough); closure templates; random programs with nested function definitions and calls; generator "
             "programs consumed by for/next/to_tuple/each/keep/fold. Counted: programs decided by the machine.",
        assumptions=ASSUME)
    return rep.finish()


def replay(path):
    return core_replay.generic_replay(PROP, path)
