"""C14 — value model: histories of container operations and the equality/ordering/key laws, decided by the
KotoCore machine's heap (store) and replayed."""
import json, os, random
import common, core_replay, gen_heap, kast

PROP = "C14"


def run(tier, seed):
    rng = random.Random(seed)
    quick = tier == "quick"
    n2 = [gen_heap.history_program(i) for i in gen_heap.histories(2, rng, 4000 if quick else None)]
    n3 = [gen_heap.history_program(i) for i in gen_heap.histories(3, rng, 3000 if quick else 60000)]
    n5 = [gen_heap.history_program(i) for i in gen_heap.histories(6, rng, 500 if quick else 10000)]
    laws = list(gen_heap.law_programs())
    cm = list(gen_heap.copy_matrix())
    fams = [("cm", cm, 0, 0, ("top", "fn0")), ("dm", list(gen_heap.derive_matrix()), 0, 0, ("top", "fn0")), ("h2", n2, 0, 0, ("top",)), ("h3", n3, 0, 0, ("top",)), ("h6", n5, 0, 1, ("top", "fn0")), ("law", laws, 0, 0, ("top",))]
    rep, preds, progs = core_replay.family_check(
        PROP, tier, seed, fams,
        rule="histories: sequences of 2 / 3 / 6 actions over a %d-action alphabet on three variables (constructors, aliasing, "
             "copy, deep_copy, push/extend incl. self, +, tuples holding containers, slices, swap, pop, index/entry/key "
             "assignment, insert/remove, reverse, sort, clear, fill, resize), each action guarded by try/catch, all three "
             "variables printed after every action (%s of the 2-action space, 3- and 6-action samples); laws: ==, !=, <, <=, >, "
             ">= over all ordered pairs of a 22-value pool, map insert/get/remove over all ordered pairs of 17 hashable keys in "
             "maps of size 1 and 21, the nesting x {alias, copy, deep_copy} x mutation-site matrix (every nest of lists/tuples/maps of depth <=3 around a mutable container), sort of every permutation of <=4 numbers / 3 strings, map order through "
             "insert/remove/extend/index-assign/sort" % (len(gen_heap.ACTIONS), "a sample" if quick else "all"),
        assumptions=["KotoCore.tla's store is the abstract heap: lists/maps are references, tuples/strings/ranges values",
                     "orderings of containers and NaN comparisons are outside the guide (discarded)"])
    # the machine as a transition system: heap invariants in every configuration, order preservation on every step
    mc = [{"id": "m%d" % i, "ast": kast.annotate_free(gen_heap.history_program(idx)), "dev": []}
          for i, idx in enumerate(gen_heap.histories(4, rng, 200 if quick else 4000))]
    mc += [{"id": "l%d" % i, "ast": kast.annotate_free(a), "dev": []} for i, a in enumerate(laws[-6:])]
    pth = os.path.join(common.WORK, "mcprogs_%d.ndjson" % os.getpid())
    with open(pth, "w") as f:
        f.write("".join(json.dumps(x) + "\n" for x in mc))
    r = common.run_tlc("MC_KotoCore", "MC_KotoCore.cfg", workers=8, env={"PROGS": pth}, timeout=1800, coverage=False)
    os.remove(pth)
    if r.rc != 0:
        raise common.ToolError("MC_KotoCore: the specification violates its own heap invariants:\n" + r.stdout[-3000:])
    rep.coverage["states"] += r.distinct
    rep.coverage["transitions"] += r.states_generated
    rep.coverage["machine_states_model_checked"] = r.distinct
    rep.coverage["machine_invariants"] = ["TypeOK", "OneEntryPerKey", "NoDangling", "[][MapKeepsInsertionOrder /\\ StoreOnlyGrows]_c"]
    return rep.finish()


def replay(path):
    return core_replay.generic_replay(PROP, path)
