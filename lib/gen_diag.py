"""Program generators for C12: faults planted at known lines under nested calls.

Every fault expression and every call site carries a unique integer marker literal, so that its source line can
be found in the rendered text whatever the layout; the machine reports the failing node and the call-site nodes
(innermost first), which are mapped to markers through the syntax tree."""
import random
from kast import *


class DiagGen:
    def __init__(self, rng):
        self.r = rng
        self.m = 9000

    def marker(self):
        self.m += 1
        return self.m

    def fault(self):
        r = self.r
        k = self.marker()
        c = r.random()
        if c < 0.3:
            return Throw(Str("boom%d" % k)), k
        if c < 0.5:
            return Asg("q", Idx(List([Int(1)]), Int(k))), k
        if c < 0.65:
            return Asg("q", Bin("+", Int(k), Str("a"))), k
        if c < 0.8:
            return Core("assert", [Cmp(["=="], [Int(k), Int(0)])]), k
        if c < 0.9:
            return Asg("q", Idx(Null(), Int(k))), k
        return Core("assert_eq", [Int(k), Int(0)]), k

    def filler(self, depth=2):
        """Statements that shift line numbers: multi-line constructs, loops, nested blocks."""
        r = self.r
        c = r.random()
        v = "z%d" % self.marker()
        if c < 0.12:
            return [Asg(v, Int(r.choice([1, 2, 3])))]
        if c < 0.25:
            # a string that layouts may continue on the next line with a backslash (shifts the lines after it)
            return [Asg(v, Str(r.choice(["x y", "a b c", "one two"])))]
        if c < 0.45:
            return [If([Cmp(["<"], [Int(1), Int(2)])], [Block([Asg(v, Int(1)), Asg(v + "b", Int(2))])], Block([Asg(v, Int(3))]))]
        if c < 0.6:
            return [For(["i"], Range(Int(0), Int(2)), Block([Asg(v, Id("i"))]))]
        if c < 0.7:
            return [Asg(v, Map(["a", "b"], [Int(1), Int(2)])), Core("print", [Id(v)])]
        if c < 0.8:
            return [Try(Block([Asg(v, Int(1))]), [("e", "", Block([Asg(v, Int(2))]))])]
        if c < 0.9:
            return [Asg(v, Switch([Bool(False), Bool(True)], [Block([Int(1)]), Block([Int(2), Int(3)])], Block([Int(4)])))]
        return [Asg(v, Fn([Param("a")], Block([Asg("b", Id("a")), Id("b")]))), Core("print", [App(Id(v), [Int(1)])])]

    def program(self):
        reset_ids()
        r = self.r
        self.m = 9000
        depth = r.choice([0, 1, 2, 3, 4])
        xs = []
        for _ in range(r.randrange(0, 3)):
            xs += self.filler()
        f, fk = self.fault()
        # innermost function contains the fault; each outer function calls the next with a marker argument
        names = ["fn%d" % i for i in range(depth)]
        prev_call = None
        # levels (index of the consumer) whose callee is a generator
        gens = set(i for i in range(1, depth) if r.random() < 0.25)
        for i in range(depth):
            body = []
            for _ in range(r.randrange(0, 3)):
                body += self.filler()
            gen_level = False
            if i == 0:
                body.append(f)
            else:
                how = r.random()
                call = App(Id(names[i - 1]), [Int(self.marker())])
                if r.random() < 0.4:
                    # a second argument built from a local variable (map, list, tuple, string, nested call): layouts put it
                    # on its own line after the marker; the call still starts where it starts
                    lv = "lv%d" % self.marker()
                    body.append(Asg(lv, Int(7)))
                    extra = r.choice([lambda: Map(["a", "b"], [Id(lv), Id(lv)]), lambda: Map(["a", "b"], [Int(1), Id(lv)]), lambda: List([Id(lv), Id(lv)]),
                                      lambda: Tuple([Id(lv), Int(2)]), lambda: IStr([Str("<"), Id(lv), Str(">")]), lambda: Core("size", [List([Id(lv)])]),
                                      lambda: Map(["a"], [Map(["b"], [Id(lv)])]), lambda: Bin("+", Id(lv), Id(lv))])()
                    call = App(Id(names[i - 1]), [call["args"][0], extra])
                if i in gens:
                    # the previous level is a generator: consume it with a for loop or with next
                    if r.random() < 0.6:
                        body.append(For(["v"], call, Block([Asg("w", Id("v"))])))
                    else:
                        body += [Asg("it", call), Asg("w", MCall(Id("it"), "next", [])), Asg("w", MCall(Id("it"), "next", []))]
                elif how < 0.3:
                    body.append(Asg("r", call))
                elif how < 0.45:
                    body.append(Core("print", [call]))
                elif how < 0.6:
                    body.append(Asg("r", Bin("+", Int(1), call)))
                elif how < 0.68:
                    # the call happens inside an overloaded operator of an object
                    on = "o%d" % self.marker()
                    op = r.choice(["+", "-", "*"])
                    body.append(Asg(on, Map(["d"], [Int(1)], ["@" + op], [Fn([Param("other")], Block([call]))])))
                    body.append(Asg("r", Bin(op, Id(on), Int(self.marker()))))
                elif how < 0.78:
                    # the call happens inside a function run by a core-library function
                    body.append(Asg("r", MCall(Tuple([Int(1), Int(self.marker())]), "fold", [Int(0), Fn([Param("acc"), Param("x")], Block([Bin("+", Id("acc"), call)]))])))
                elif how < 0.9:
                    body.append(Asg("r", MCall(MCall(Tuple([Int(1), Int(self.marker())]), "each", [Fn([Param("x")], Block([call]))]), "to_tuple", [])))
                else:
                    body.append(Asg("r", MCall(MCall(MCall(Tuple([Int(self.marker())]), "keep", [Fn([Param("x")], Block([Cmp(["=="], [call, Int(0)])]))]), "each", [Fn([Param("y")], Block([Id("y")]))]), "count", [])))
            if i + 1 in gens:
                # this level is a generator: it yields once before reaching the fault or the call
                body.insert(max(0, len(body) - 1), Yield(Int(1)))
                gen_level = True
            for _ in range(r.randrange(0, 2)):
                body += self.filler()
            body.append(Int(0))
            xs.append(Asg(names[i], Fn([Param("_m"), Param("_o", kind="def")], Block(body), defaults=[Null()], gen=gen_level)))
            for _ in range(r.randrange(0, 2)):
                xs += self.filler()
        if depth == 0:
            xs.append(f)
        else:
            xs.append(Asg("top", App(Id(names[-1]), [Int(self.marker())])))
        xs.append(Str("unreachable"))
        return Block(xs)


def programs(rng, n):
    g = DiagGen(rng)
    return [g.program() for _ in range(n)]


def index_nodes(ast, acc=None):
    if acc is None:
        acc = {}
    acc[ast["id"]] = ast
    for c in children(ast):
        index_nodes(c, acc)
    return acc


def marker_of(node):
    """The unique marker literal inside a node (int literal >= 9000 or 'boomNNNN' string)."""
    if node["k"] == "int" and node["v"] >= 9000:
        return str(node["v"])
    if node["k"] == "str" and node["v"].startswith("boom"):
        return node["v"][4:]
    for c in children(node):
        if c["k"] == "fn":
            continue
        m = marker_of(c)
        if m:
            return m
    return None
