"""C16 — type hints: positions x hint names x values, with enable_type_checks on and off (KotoCore machine as oracle)."""
import random
import common, core_replay, gen_hints, gen_core, gen_calls, kast

PROP = "C16"


def run(tier, seed):
    rep = common.Report(PROP, tier, "model_checking", seed)
    rng = random.Random(seed)
    quick = tier == "quick"
    asts = list(gen_hints.programs())
    if quick:
        rng.shuffle(asts)
        asts = asts[:1500]
    progs_on = [{"id": "on%d" % i, "ast": a} for i, a in enumerate(asts)]
    progs_off = [{"id": "off%d" % i, "ast": a} for i, a in enumerate(asts)]
    p_on, s1 = core_replay.predict(progs_on, tag="c16on", shards=8)
    p_off, s2 = core_replay.predict(progs_off, tag="c16off", shards=8, dev=("notypes",))
    jobs, idx = [], []
    for pl, preds, flag in ((progs_on, p_on, True), (progs_off, p_off, False)):
        for p in pl:
            pr = preds[p["id"]]
            if pr["status"] in ("unspec", "fuel"):
                continue
            for ctx in ("top", "fn0"):
                tree = p["ast"] if ctx == "top" else kast.wrap_in_function(p["ast"])
                jobs.append({"id": "%s|%s" % (p["id"], ctx), "src": kast.render(tree), "type_checks": flag, "limit_ms": 5000})
                idx.append((p, pr, flag))
    res = common.kv_parallel("run", jobs)
    decided = set()
    for job, (p, pr, flag), r in zip(jobs, idx, res):
        decided.add(p["id"])
        why = core_replay.compare(pr, r)
        if why:
            rep.violation(job["id"].replace("|", "_"), {"property": PROP, "why": why, "type_checks": flag, "source": job["src"],
                                                        "predicted": pr, "actual": r, "ast": p["ast"]})
    # HintsOffEquiv on ordinary programs: compiled with checks off they behave as predicted (their checks pass or they have none)
    g = gen_calls.CallGen(rng)
    extra = [{"id": "e%d" % i, "ast": g.program()} for i in range(150 if quick else 3000)]
    pe, s3 = core_replay.predict(extra, tag="c16e", shards=8)
    ejobs = [{"id": p["id"], "src": kast.render(p["ast"]), "type_checks": False, "limit_ms": 5000} for p in extra if pe[p["id"]]["status"] in ("ok", "err")]
    eres = common.kv_parallel("run", ejobs)
    for job, r in zip(ejobs, eres):
        why = core_replay.compare(pe[job["id"]], r)
        if why:
            rep.violation("offequiv_%s" % job["id"], {"property": PROP, "why": "compiled with type checks disabled: " + why, "source": job["src"],
                                                      "predicted": pe[job["id"]], "actual": r})
    rep.coverage = {
        "states": s1["states"] + s2["states"] + s3["states"], "transitions": s1["transitions"] + s2["transitions"] + s3["transitions"],
        "traces_validated_against_impl": len(jobs) + len(ejobs),
        "samples": [kast.render(asts[0]), kast.render(asts[1])],
        "evaluations": len(jobs) + len(ejobs), "distinct_nontrivial": len(decided),
        "rule": "13 positions (let, for argument, function argument, return, yield, match arm, typed catch; let with several targets: hinted ignored or named target over a list, a bare tuple and a call result; for with several arguments, one of them a hinted ignored argument) x 21 hint names (Any, "
                "Callable, Indexable, Iterable, builtin names, user @type names Foo/Bar/Baz, ? variants) x 19 values (every kind, "
                "objects with @type and @base chains of depth <= 2, an object inheriting its type from its base): %d programs%s, each "
                "predicted and run with enable_type_checks on and off; ordinary programs compiled with checks off" % (len(list(gen_hints.programs())), " (1500 sampled)" if quick else ""),
        "exhaustive": not quick,
    }
    rep.assumptions = ["Indexable on ranges, Iterable/Callable on objects and generator functions, and the type of an object without @type "
                       "are treated as unspecified (DESIGN H1)"]
    return rep.finish()


def replay(path):
    import json
    d = json.load(open(path))
    r = common.kv("run", [{"id": "replay", "src": d["source"], "type_checks": d.get("type_checks", True), "limit_ms": 5000}])[0]
    why = core_replay.compare(d["predicted"], r)
    print(d["source"]); print("predicted:", d["predicted"]["out"], "actual:", r.get("stdout"))
    if why:
        print("VIOLATION property=%s replay=%s" % (PROP, path)); return 1
    return 0
