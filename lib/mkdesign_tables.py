#!/usr/bin/env python3
"""Refresh the generated parts of DESIGN.md section 12 (list of repaired defects, table of seeded changes) from
known_findings.json and seeded/*/meta.json."""
import glob, json, os, re
ROOT = os.path.dirname(os.path.dirname(os.path.abspath(__file__)))


def seeded_table():
    rows = []
    for f in sorted(glob.glob(os.path.join(ROOT, "seeded/*/meta.json"))):
        m = json.load(open(f)); name = f.split("/")[-2]
        det = m.get("detected_by"); det = "; ".join(det) if isinstance(det, list) else str(det or "")
        det = det.replace("|", "/")
        st = (m.get("strengthening") or "").replace("|", "/")
        if m.get("initially_missed"):
            res = "after strengthening: " + st[:200]
        else:
            res = "directly"
        rows.append("| `%s` | %s | %s | %s |" % (name, m.get("property"), det[:170], res))
    return "| change (`seeded/<name>/`) | property | caught by | how |\n|---|---|---|---|\n" + "\n".join(rows) + "\n"


def fixed_list():
    d = json.load(open(os.path.join(ROOT, "known_findings.json")))
    return "\n".join("* `%s`" % x.replace("fixed: ", "") for x in d["fixed"]) + "\n"


def main():
    p = os.path.join(ROOT, "DESIGN.md")
    s = open(p).read()
    for tag, text in (("fixed", fixed_list()), ("seeded", seeded_table())):
        b, e = "<!-- BEGIN %s -->\n" % tag, "<!-- END %s -->\n" % tag
        i, j = s.index(b) + len(b), s.index(e)
        s = s[:i] + text + s[j:]
    open(p, "w").write(s)
    print("DESIGN.md tables refreshed")


if __name__ == "__main__":
    main()
