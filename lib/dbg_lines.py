"""C12, the `debug` clause: debug output is prefixed with the line on which the debug expression starts.

Texts are built from contexts that place one `debug <marker>` expression each (statement, assigned value, value on the line
after `=`, inside brackets on its own line, operand on a continuation line, inside blocks); contexts are stacked in random
order with comment and blank lines between them, so the same context lands on many lines.  The oracle is positional: every
marker is reported exactly once, with the 1-based number of the line its `debug` keyword is on, the expression text and the value."""
import re

CONTEXTS = [
    ["debug $M"],
    ["v$K = debug $M"],
    ["v$K =", "  debug $M"],
    ["v$K = 1 +", "  debug $M"],
    ["v$K = [", "  1,", "  debug $M", "]"],     # (no comma after it: `debug a, b` reports the tuple)
    ["v$K = (1,", "  debug $M)"],
    ["print(", "  debug $M)"],
    ["f$K = ||", "  debug $M", "f$K()"],
    ["f$K = ||", "  w =", "    debug $M", "  w", "f$K()"],
    ["if true", "  debug $M"],
    ["if false", "  0", "else", "  debug $M"],
    ["for i$K in 0..1", "  debug $M"],
    ["v$K = if true then debug $M else 0"],
    ["v$K = match 1", "  1 then", "    debug $M", "  else 0"],
    ["try", "  debug $M", "catch e", "  0"],
    ["m$K =", "  k: debug $M"],
    ["v$K = (debug $M) + 1"],
    ["v$K = 'a{debug $M}b'"],
    ["g$K = |x| x", "v$K = g$K debug $M"],
    ["g$K = |x| x", "v$K = g$K(", "  debug $M", ")"],
]

LINE = re.compile(r"^\[(\d+)\] (.*): (.*)$")


def text(rng, n):
    """(source, {marker: expected 1-based line})"""
    lines, want = [], {}
    for k in range(n):
        for _ in range(rng.randrange(0, 3)):
            lines.append(rng.choice(["# c%d" % k, "", "#- multi", "   line -#"][:2]))
        m = 9000 + k
        for ln in rng.choice(CONTEXTS):
            ln = ln.replace("$K", str(k))
            if "$M" in ln:
                want[m] = len(lines) + 1
                ln = ln.replace("$M", str(m))
            lines.append(ln)
    return "\n".join(lines) + "\n", want


def judge(stdout, want):
    """None when every marker is reported once on its line; else a reason."""
    seen = {}
    for ln in (stdout or "").split("\n"):
        mt = LINE.match(ln)
        if not mt:
            continue
        line, expr, val = int(mt.group(1)), mt.group(2), mt.group(3)
        key = None
        for m in want:
            if str(m) in expr:
                key = m
        if key is None:
            return "debug output for an unknown expression: %r" % ln
        if key in seen:
            return "the debug expression %d is reported twice: %r and %r" % (key, seen[key], ln)
        seen[key] = ln
        if line != want[key]:
            return "debug %d is on line %d, reported with line %d" % (key, want[key], line)
        if expr != str(key) or val != str(key):
            return "debug %d is reported as %r" % (key, ln)
    missing = [m for m in want if m not in seen]
    if missing:
        return "no debug output for %s" % missing
    return None
