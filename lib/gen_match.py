"""Program generators for C03: match (subject x pattern matrix) and unpacking."""
import itertools, random
from kast import *

SUBJECTS = [
    ("null", lambda: Null()), ("true", lambda: Bool(True)), ("false", lambda: Bool(False)),
    ("0", lambda: Int(0)), ("1", lambda: Int(1)), ("-1", lambda: Int(-1)), ("2.0", lambda: Flt(2, 0)),
    ("0.5", lambda: Flt(1, 1)), ("''", lambda: Str("")), ("'a'", lambda: Str("a")), ("'ab'", lambda: Str("ab")),
    ("(1,)", lambda: Tuple([Int(1)])), ("(1,2)", lambda: Tuple([Int(1), Int(2)])),
    ("(1,2,3)", lambda: Tuple([Int(1), Int(2), Int(3)])),
    ("((1,2),3)", lambda: Tuple([Tuple([Int(1), Int(2)]), Int(3)])),
    ("(1,'a')", lambda: Tuple([Int(1), Str("a")])),
    ("[]", lambda: List([])), ("[1]", lambda: List([Int(1)])), ("[1,2]", lambda: List([Int(1), Int(2)])),
    ("[1,2,3]", lambda: List([Int(1), Int(2), Int(3)])),
    ("['a',(1,2)]", lambda: List([Str("a"), Tuple([Int(1), Int(2)])])),
    ("{}", lambda: Map([], [])), ("{a:1}", lambda: Map(["a"], [Int(1)])),
    ("{a:1,b:2}", lambda: Map(["a", "b"], [Int(1), Int(2)])),
    ("{b:(1,2)}", lambda: Map(["b"], [Tuple([Int(1), Int(2)])])),
    ("1..3", lambda: Range(Int(1), Int(3))),
    ("(null,null)", lambda: Tuple([Null(), Null()])),
    ("((1,2),(3,4))", lambda: Tuple([Tuple([Int(1), Int(2)]), Tuple([Int(3), Int(4)])])),
    ("(9,8,(1,2),3)", lambda: Tuple([Int(9), Int(8), Tuple([Int(1), Int(2)]), Int(3)])),
    ("[(5,6),(1,2),3]", lambda: List([Tuple([Int(5), Int(6)]), Tuple([Int(1), Int(2)]), Int(3)])),
    ("(7,{a:1},3)", lambda: Tuple([Int(7), Map(["a"], [Int(1)]), Int(3)])),
    ("(2,1)", lambda: Tuple([Int(2), Int(1)])),
]

PATTERNS = [
    lambda: PLit(Null()), lambda: PLit(Bool(True)), lambda: PLit(Int(0)), lambda: PLit(Int(1)), lambda: PLit(Int(-1)),
    lambda: PLit(Flt(2, 0)), lambda: PLit(Str("a")), lambda: PLit(Str("")),
    lambda: PId("x"), lambda: PWild("_"), lambda: PWild("_ig"),
    lambda: PTup([PId("x")]), lambda: PTup([PId("x"), PId("y")]), lambda: PTup([PLit(Int(1)), PId("y")]),
    lambda: PTup([PId("x"), PLit(Int(2))]), lambda: PTup([PId("x"), PId("y"), PId("z")]),
    lambda: PTup([PId("x")], "last", ""), lambda: PTup([PId("y")], "first", ""),
    lambda: PTup([PId("x")], "last", "rs"), lambda: PTup([PId("y")], "first", "rs"),
    lambda: PTup([PId("x"), PId("y")], "last", ""), lambda: PTup([PId("x"), PId("y")], "first", "rs"),
    lambda: PTup([PLit(Int(1))], "last", "rs"), lambda: PTup([], "last", "rs"),
    lambda: PTup([PTup([PId("a"), PId("b")]), PId("c")]), lambda: PTup([PId("x"), PTup([PId("a"), PId("b")])]),
    lambda: PTup([PWild("_"), PId("y")]), lambda: PTup([PTup([PId("a")], "last", ""), PId("c")]),
    lambda: PMap(["a"]), lambda: PMap(["a", "b"]), lambda: PMap(["a"], ["q"]), lambda: PMap(["b", "a"], ["b", "q"]),
    lambda: PMap(["zz"]),
    lambda: PTyped("x", "Number"), lambda: PTyped("x", "String"), lambda: PTyped("x", "Tuple"),
    lambda: PTyped("x", "List"), lambda: PTyped("x", "Map"), lambda: PTyped("x", "Bool"), lambda: PTyped("x", "Null"),
    lambda: PTyped("x", "Range"), lambda: PTyped("x", "Any"), lambda: PTyped("x", "Number?"),
    lambda: PTyped("x", "Indexable"), lambda: PTyped("x", "Iterable"), lambda: PTyped("x", "Callable"),
    lambda: PTyped("x", "Foo"),
    lambda: PTup([PTyped("x", "Number"), PTyped("y", "String")]),
    lambda: PTup([PLit(Null()), PId("y")]),
    # nested container followed by further patterns (the nested pattern's last element is not the last pattern)
    lambda: PTup([PTup([PLit(Int(1)), PLit(Int(2))]), PLit(Int(4))]),
    lambda: PTup([PTup([PLit(Int(1)), PLit(Int(2))]), PLit(Int(3))]),
    lambda: PTup([PTup([PLit(Int(1)), PId("b")]), PLit(Int(3))]),
    lambda: PTup([PTup([PId("a")], "last", ""), PLit(Int(4))]),
    lambda: PTup([PMap(["zz"]), PId("c")]),
    lambda: PTup([PLit(Int(1)), PLit(Int(2))]),
    lambda: PTup([PLit(Int(1)), PLit(Int(3))]),
    # map patterns with ignored rebinds: the key must still be present
    lambda: PMap(["a"], ["_"]), lambda: PMap(["zz"], ["_"]), lambda: PMap(["zz", "a"], ["_skip", "q"]),
    lambda: PMap(["a", "zz"], ["q", "_"]),
    # nested patterns after a leading ellipsis (counted from the end of the container)
    lambda: PTup([PTup([PId("a"), PId("b")]), PId("z")], "first", ""), lambda: PTup([PTup([PId("a"), PId("b")]), PId("z")], "first", "rs"),
    lambda: PTup([PId("x"), PTup([PId("a"), PId("b")])], "first", ""), lambda: PTup([PTup([PId("a"), PId("b")])], "first", "rs"),
    lambda: PTup([PMap(["a"]), PId("z")], "first", ""), lambda: PTup([PTup([PId("a")], "last", ""), PId("z")], "first", ""),
]


def bound_tuple(tag, pats):
    names = []
    for p in pats:
        for n in pat_names(p):
            if n not in names:
                names.append(n)
    return names


def arm_body(tag, names):
    return Block([Tuple([Str(tag)] + [Id(n) for n in names])])


def match_matrix(rng=None, sample=None):
    cases = []
    for si in range(len(SUBJECTS)):
        for pi in range(len(PATTERNS)):
            for pos in (0, 1, 2):
                for guard in ("none", "true", "false"):
                    if guard != "none" and (pos != 1):
                        continue
                    cases.append((si, pi, pos, guard))
    if sample is not None and rng is not None and len(cases) > sample:
        cases = rng.sample(cases, sample)
    for si, pi, pos, guard in cases:
        reset_ids()
        pat = PATTERNS[pi]()
        names = pat_names(pat)
        g = None if guard == "none" else Bool(guard == "true")
        arms = []
        for k in range(pos):
            arms.append(Arm([PLit(Str("nomatch%d" % k))], arm_body("F%d" % k, [])))
        arms.append(Arm([pat], arm_body("HIT", names), g))
        # a following catch-all arm (or none => null); its pattern variable is distinct
        tail = (si + pi + pos) % 3
        if tail == 0:
            arms.append(Arm([PId("other")], arm_body("REST", [])))
            e = None
        elif tail == 1:
            e = arm_body("ELSE", [])
        else:
            e = None
        # every fourth case matches on a variable that the patterns bind themselves (match x / (x, y) then ...)
        sv = "x" if (si + pi + pos) % 4 == 0 else "s"
        # (whether a failed arm leaves partial bindings behind is not specified: x is then not read after the match)
        # (in every other case r already holds a value: a match in which no arm matches must still yield null)
        yield Block(([Asg("r", Str("stale"))] if (si + pi) % 2 == 0 else []) +
                    [Asg(sv, SUBJECTS[si][1]()), Asg("r", Match(Id(sv), arms, e)), Core("print", [Id("r")])] +
                    ([Core("print", [Id(sv)])] if sv == "s" else []) + [Id("r")])


def arg_pattern_matrix(rng=None, sample=None):
    """Every container pattern as the unpacking pattern of a function argument (guide: Unpacking Arguments), against every
    subject: the names it binds are returned; a container that does not fit the pattern is an error."""
    def has_lit(p):
        return p["p"] == "lit" or any(has_lit(x) for x in p.get("xs", []))
    # (literals are match patterns only: an argument pattern with a literal is a syntax error)
    cases = [(si, pi) for si in range(len(SUBJECTS)) for pi in range(len(PATTERNS)) if PATTERNS[pi]()["p"] in ("tup", "map") and not has_lit(PATTERNS[pi]())]
    if sample is not None and rng is not None and len(cases) > sample:
        cases = rng.sample(cases, sample)
    for si, pi in cases:
        reset_ids()
        pat = PATTERNS[pi]()
        names = pat_names(pat)
        fn = Fn([Param("arg0", "pat", pat=pat), Param("last")], Block([Tuple([Str("HIT")] + [Id(n) for n in names] + [Id("last")])]))
        yield Block([Asg("f", fn), Asg("s", SUBJECTS[si][1]()),
                     Try(Block([Core("print", [App(Id("f"), [Id("s"), Int(99)])])]), [("e", "", Block([Core("print", [Str("error")])]))]), Str("end")])


def match_alternatives(rng=None, sample=None):
    """Each pattern as the first of two alternatives (followed by one that never matches / always matches /
    a literal), and as the second alternative; with and without a guard."""
    cases = []
    for si in range(len(SUBJECTS)):
        for pi in range(len(PATTERNS)):
            for other in ("never", "lit5", "any"):
                for order in (0, 1):
                    for guard in ("none", "false", "true"):
                        cases.append((si, pi, other, order, guard))
    if sample is not None and rng is not None and len(cases) > sample:
        cases = rng.sample(cases, sample)
    for si, pi, other, order, guard in cases:
        reset_ids()
        pat = PATTERNS[pi]()
        o = {"never": PLit(Str("never")), "lit5": PLit(Int(5)), "any": PWild("_")}[other]
        pats = [pat, o] if order == 0 else [o, pat]
        g = None if guard == "none" else Bool(guard == "true")
        arms = [Arm(pats, arm_body("HIT", []), g), Arm([PId("other")], arm_body("REST", []))]
        yield Block(([Asg("r", Str("stale"))] if (si + pi) % 2 == 0 else []) +
                    [Asg("s", SUBJECTS[si][1]()), Asg("r", Match(Id("s"), arms)), Core("print", [Id("r")]), Id("r")])


def match_random(rng, n):
    """Matches with several alternatives per arm, guards that use bindings, and subject expressions with a
    side effect (evaluated once)."""
    out = []
    for _ in range(n):
        reset_ids()
        r = rng
        subj = r.choice(SUBJECTS)[1]()
        arms = []
        used = set()
        for ai in range(r.randrange(1, 4)):
            pats = []
            for _ in range(r.choice([1, 1, 2, 3])):
                p = r.choice(PATTERNS)()
                pats.append(p)
            # alternatives of one arm must bind the same names for the body to be well defined: use the
            # intersection
            sets = [set(pat_names(p)) for p in pats]
            common_names = sorted(set.intersection(*sets)) if sets else []
            # rename bound names per arm so that bindings of a failed arm are never read later
            guard = None
            if len(pats) == 1 and r.random() < 0.35:
                ns = [n for n in common_names if n in ("x", "y", "a", "c")]
                if ns and r.random() < 0.6:
                    guard = Cmp([r.choice(["<", ">=", "=="])], [Core("size", [Tuple([Id(ns[0])])]), Int(r.choice([1, 2]))])
                else:
                    guard = Bool(r.random() < 0.5)
            arms.append(Arm(pats, arm_body("A%d" % ai, [n for n in common_names if n not in ("rs",)]), guard))
        e = arm_body("ELSE", []) if r.random() < 0.5 else None
        xs = [Asg("t", Fn([Param("v")], Block([Core("print", [Str("subject")]), Id("v")])))] + \
             ([Asg("r", Str("stale"))] if r.random() < 0.5 else []) + \
             [Asg("r", Match(App(Id("t"), [subj]), arms, e)), Core("print", [Id("r")]), Id("r")]
        out.append(Block(xs))
    return out


ITERABLES = [
    lambda n: Tuple([Int(10 + i) for i in range(n)]),
    lambda n: List([Int(20 + i) for i in range(n)]),
    lambda n: Range(Int(5), Int(5 + n)),
    lambda n: Str("abcdef"[:n]),
    lambda n: Map(["k%d" % i for i in range(n)], [Int(i) for i in range(n)]),
]


def unpack_matrix():
    """Multi-assignment and for-loop argument unpacking against every iterable shape of length 0..4."""
    for ntargets in (2, 3):
        for wild in (None, 0, 1):
            for mk in ITERABLES:
                for n in range(0, 5):
                    reset_ids()
                    ns = ["u%d" % i for i in range(ntargets)]
                    if wild is not None and wild < ntargets:
                        ns[wild] = "_" if wild == 0 else "_skip"
                    reads = [Id(x) for x in ns if not x.startswith("_")]
                    yield Block([MAsg(ns, mk(n)), Tuple(reads)])
    # scalars: first target gets the value, the rest null
    for v in (lambda: Int(42), lambda: Null(), lambda: Bool(True), lambda: Flt(1, 1)):
        reset_ids()
        yield Block([MAsg(["u0", "u1", "u2"], v()), Tuple([Id("u0"), Id("u1"), Id("u2")])])
    # for with several arguments over sequences of sequences of differing length
    rows = [lambda: Tuple([Int(1), Int(2)]), lambda: Tuple([Int(3)]), lambda: Tuple([Int(4), Int(5), Int(6)]),
            lambda: List([Int(7), Int(8)]), lambda: Tuple([]), lambda: List([])]
    for combo in itertools.product(range(len(rows)), repeat=2):
        for outer in ("tuple", "list"):
            for nv in (2, 3):
                reset_ids()
                seq = [rows[i]() for i in combo]
                it = Tuple(seq) if outer == "tuple" else List(seq)
                vs = ["a", "b", "c"][:nv]
                if combo[0] % 2 == 1:
                    vs[0] = "_"
                reads = [Id(x) for x in vs if x != "_"]
                yield Block([For(vs, it, Block([Core("print", [Tuple(reads)])])), Str("done")])
    # for over a map: key, value
    for n in range(0, 4):
        reset_ids()
        yield Block([For(["k", "v"], ITERABLES[4](n), Block([Core("print", [Tuple([Id("k"), Id("v")])])])), Str("done")])
