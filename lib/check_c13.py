"""C13 — iterator pipelines: Iter.tla (definition vs per-adaptor state machines, model-checked by TLC for every pipeline in
scope) replayed against the implementation: outputs after every `next`, source pulls (upper bound), consumers, copies."""
import json, random
import common

PROP = "C13"


def disp(v):
    if v["t"] == "i":
        return str(v["v"])
    xs = v["v"]
    return "(" + ", ".join(disp(x) for x in xs) + ")"


def chain_text(pipe, gen2=False):
    out = ""
    for ad in pipe:
        a, n = ad["a"], ad["n"]
        if a == "each":
            out += ".each(|x| (x, 7))"
        elif a == "keep":
            out += ".keep(|x| x != 2)"
        elif a == "takew":
            out += ".take(|x| x != 3)"
        elif a in ("skip", "take", "step", "chunks", "windows"):
            out += ".%s(%d)" % (a, n)
        elif a == "intersperse":
            out += ".intersperse(0)"
        elif a == "chain":
            out += ".chain(src91())" if gen2 else ".chain((91, 92))"
        elif a == "zip":
            out += ".zip(src81())" if gen2 else ".zip((81, 82))"
        else:
            out += ".%s()" % a
    return out


def source_text(kind, n):
    items = ", ".join(str(i) for i in range(1, n + 1))
    if kind == "gen":
        tup = "(" + items + ("," if n == 1 else "") + ")"
        return "src = ||\n  for v in %s\n    print 'pull'\n    yield v\n" % tup, "src()"
    if kind == "list":
        return "", "[" + items + "]"
    if kind == "tuple":
        return "", "(" + items + ("," if n == 1 else "") + ")"
    if kind == "range":
        return "", "(1..%d)" % (n + 1)
    if kind == "bytes":
        return "", "byte_source()"
    raise ValueError(kind)


GEN2 = "src91 = ||\n  for v in (91, 92)\n    print 'pull2'\n    yield v\nsrc81 = ||\n  for v in (81, 82)\n    print 'pull2'\n    yield v\n"


def stepwise_script(p, kind):
    pre, src = source_text(kind, p["n"])
    gen2 = kind == "gen"
    L = [(GEN2 if gen2 else "") + pre + "it = " + src + chain_text(p["pipe"], gen2), "print 'made'"]
    for _ in p["steps"]:
        L += ["x = it.next()", "print if x == null then 'end' else 'out {x.get()}'"]
    return "\n".join(L) + "\n"


def consumers_script(p, kind):
    pre, src = source_text(kind, p["n"])
    e = src + chain_text(p["pipe"])
    L = [pre, "print %s.to_tuple()" % e, "print %s.count()" % e, "print %s.to_list()" % e, "print %s.last()" % e,
         "print %s.position(|x| x == 3)" % e, "print %s.find(|x| x == 3)" % e, "print %s.any(|x| x == 3)" % e,
         "print %s.all(|x| x != 3)" % e]
    if p["allints"]:
        L += ["print %s.sum()" % e, "print %s.product()" % e, "print %s.min()" % e, "print %s.max()" % e,
              "print %s.min_max()" % e, "print %s.fold(100, |a, x| a - x)" % e]
    L.append("n = 0\nfor x in %s\n  n += 1\nprint n" % e)
    # docs/core_lib/iterator.md: last, count, to_tuple consume the iterator -- nothing is left afterwards
    for cons in ("last", "count", "to_tuple", "consume", "to_string"):
        L.append("it = %s\nit.%s()\nprint it.next()" % (e, cons))
    # to_string: the formatted values, one after the other; consume with a function: called for each value in order
    L.append("print %s.to_string()" % e)
    L.append("seen = []\n%s.consume(|x| seen.push x)\nprint seen" % e)
    return "\n".join(L) + "\n"


def both_ends_script(p, kind):
    pre, src = source_text(kind, p["n"])
    L = [pre + "it = " + src + chain_text(p["pipe"])]
    for e in p["ends"]:
        L += ["x = it.%s()" % ("next" if e == "f" else "next_back"), "print if x == null then 'end' else 'out {x.get()}'"]
    return "\n".join(L) + "\n"


def consumers_expected(p):
    allv = p["all"]
    ds = [disp(v) for v in allv]
    tup = "(" + ", ".join(ds) + ")"
    last = ds[-1] if ds else "null"
    pos = p["pos3"]
    E = [tup, str(p["count"]), "[" + ", ".join(ds) + "]", last, str(pos - 1) if pos else "null", "3" if pos else "null",
         "true" if pos else "false", "false" if pos else "true"]
    if p["allints"]:
        vals = [v["v"] for v in allv]
        acc = 100
        for x in vals:
            acc -= x
        prod = 1
        for x in vals:
            prod *= x
        E += [str(p["sum"]), str(prod), str(p["minv"]) if allv else "null", str(p["maxv"]) if allv else "null",
              "(%d, %d)" % (p["minv"], p["maxv"]) if allv else "null", str(acc)]
    E.append(str(p["count"]))
    E += ["null", "null", "null", "null", "null"]
    E += ["".join(ds), "[" + ", ".join(ds) + "]"]
    return E


def copy_script(p, kind):
    pre, src = source_text(kind, p["n"])
    return (pre + "it = " + src + chain_text(p["pipe"]) + "\n" +
            "sh = |x| if x == null then 'end' else 'out {x.get()}'\n"
            "print sh(it.next())\nc = koto.copy it\nprint sh(c.next())\nprint sh(c.next())\nprint sh(it.next())\nprint sh(c.next())\n")


def run(tier, seed):
    rep = common.Report(PROP, tier, "model_checking", seed)
    rng = random.Random(seed)
    quick = tier == "quick"
    res = common.run_tlc("Iter", "Iter_quick.cfg" if quick else "Iter_thorough.cfg", workers=8, coverage=False, timeout=3000)
    if res.rc != 0:
        raise common.ToolError("Iter.tla: the adaptor machines disagree with the definitions:\n" + res.stdout[-3000:])
    pipes = common.tlc_values(res, "PIPE")
    total = len(pipes)
    if not quick and total > 40000:
        rng.shuffle(pipes)
        pipes = pipes[:40000]
    jobs, meta = [], []
    for i, p in enumerate(pipes):
        has_rev = any(ad["a"] == "reversed" for ad in p["pipe"])
        kinds = ["list", "tuple", "range"] if has_rev else ["gen", "list", "range"]
        k1 = kinds[0]
        jobs.append({"id": "s%d" % i, "src": stepwise_script(p, k1), "limit_ms": 5000})
        meta.append(("step", p, k1))
        if i % 3 == 1:
            # a source constructed on the Rust side (bytes 1..n), bidirectional
            jobs.append({"id": "b%d" % i, "src": stepwise_script(p, "bytes"), "limit_ms": 5000, "bytes": list(range(1, p["n"] + 1))})
            meta.append(("step", p, "bytes"))
        if p["finite"]:
            k2 = kinds[1 + (i % 2)]
            jobs.append({"id": "c%d" % i, "src": consumers_script(p, k2), "limit_ms": 5000})
            meta.append(("cons", p, k2))
        if p["ends"]:
            k4 = ["list", "tuple", "range", "bytes"][i % 4]
            job = {"id": "e%d" % i, "src": both_ends_script(p, k4), "limit_ms": 5000}
            if k4 == "bytes":
                job["bytes"] = list(range(1, p["n"] + 1))
            jobs.append(job)
            meta.append(("ends", p, k4))
        if not any(ad["a"] in ("peekable",) for ad in p["pipe"]) and i % 3 == 0:
            k3 = "list" if not has_rev else "tuple"
            jobs.append({"id": "k%d" % i, "src": copy_script(p, k3), "limit_ms": 5000})
            meta.append(("copy", p, k3))
    results = common.kv_parallel("run", jobs)
    counts = {"step": 0, "cons": 0, "copy": 0, "ends": 0}
    for job, (what, p, kind), r in zip(jobs, meta, results):
        why = None
        counts[what] += 1
        if r.get("status") in ("panic", "abort", "hang"):
            why = "implementation %s: %s" % (r["status"], (r.get("err_msg") or "")[:200])
        elif r.get("status") != "ok":
            why = "script failed: %s" % (r.get("err_head") or r.get("err_msg") or "")[:200]
        else:
            lines = r["stdout"].split("\n")[:-1]
            if what == "step":
                made = lines.index("made") if "made" in lines else -1
                if made != 0:
                    why = "source pulled %d time(s) before the iterator was consumed" % made
                else:
                    pulls = pulls2 = 0
                    k = 0
                    for l in lines[1:]:
                        if l == "pull":
                            pulls += 1
                            continue
                        if l == "pull2":
                            pulls2 += 1
                            continue
                        st = p["steps"][k]
                        exp = ("out " + disp(st["v"])) if st["some"] else "end"
                        if l != exp:
                            why = "next() number %d: expected %r got %r" % (k + 1, exp, l)
                            break
                        if kind == "gen" and pulls2 > st["pulls2"]:
                            why = "after next() number %d the second input(s) of chain/zip have been pulled %d times; the adaptor machines need at most %d" % (k + 1, pulls2, st["pulls2"])
                            break
                        if kind == "gen" and pulls > st["pulls"]:
                            why = "after next() number %d the source has been pulled %d times; the adaptor machines need at most %d" % (k + 1, pulls, st["pulls"])
                            break
                        k += 1
                    if why is None and k != len(p["steps"]):
                        why = "missing outputs"
            elif what == "cons":
                exp = consumers_expected(p)
                if lines != exp:
                    k = 0
                    while k < min(len(lines), len(exp)) and lines[k] == exp[k]:
                        k += 1
                    why = "consumer %d: expected %r got %r" % (k, exp[k] if k < len(exp) else None, lines[k] if k < len(lines) else None)
            elif what == "ends":
                exp = [("out " + disp(s["v"])) if s["some"] else "end" for s in p["both"]]
                if lines != exp:
                    why = "next / next_back in the order %s: expected %s got %s" % ("".join(p["ends"]), exp, lines)
            else:
                outs = [("out " + disp(s["v"])) if s["some"] else "end" for s in p["steps"]]
                exp = [outs[0], outs[1], outs[2], outs[1], outs[3]]
                if lines != exp:
                    why = "copied iterator is not independent: expected %s got %s" % (exp, lines)
        if why:
            rep.violation("%s_%s" % (what, job["id"]), {"property": PROP, "why": why, "pipe": p["pipe"], "n": p["n"], "source_kind": kind,
                                                        "source": job["src"], "predicted": p, "actual": r.get("stdout")})
    rep.coverage = {
        "states": res.distinct, "transitions": res.states_generated, "traces_validated_against_impl": len(jobs),
        "samples": [{"pipe": pipes[7]["pipe"], "n": pipes[7]["n"], "script": stepwise_script(pipes[7], "gen")}],
        "evaluations": len(jobs), "distinct_nontrivial": len(pipes),
        "rule": "sources: generator, list, tuple, range and a byte iterator constructed on the Rust side; every well-formed pipeline of depth <= %d over 26 adaptor instances (each, keep, take with a test function, enumerate, intersperse, chain, zip, "
                "flatten, reversed, peekable, cycle, skip/take x {0,1,2,5}, step/chunks/windows x {1,2,3}) x source length 0..%d "
                "(%d pipelines, all model-checked: OutputsEqualDefinition, StaysExhausted, PullsEachOnce); replay: 9 stepwise "
                "next() calls over a pull-logging generator (outputs exact, pulls bounded by the adaptor machines, none before "
                "consumption), 20 consumers over list/tuple/range sources, next/next_back in turn on bidirectional pipelines "
                "(BothEndsEqualDefinition), copy independence" % (2 if quick else 3, 4 if quick else 5, total),
        "scripts": counts, "exhaustive": quick or total <= 40000,
    }
    rep.assumptions = ["pull counts are checked as an upper bound only (the docs do not fix how far step/chunks/windows read ahead)",
                       "copy independence is claimed for built-in sources only, as koto.copy documents"]
    return rep.finish()


def replay(path):
    d = json.load(open(path))
    job = {"id": "replay", "src": d["source"], "limit_ms": 5000}
    if d.get("source_kind") == "bytes":
        job["bytes"] = list(range(1, d["n"] + 1))
    r = common.kv("run", [job])[0]
    print(d["source"]); print("why:", d["why"]); print("now:", r.get("stdout"))
    if r.get("stdout") != d.get("actual"):
        print("(output changed since the violation was recorded)")
    print("VIOLATION property=%s replay=%s" % (PROP, path)) if True else None
    return 1
