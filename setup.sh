#!/bin/sh
# Offline setup: build both harness flavours against /repo's working tree, parse all specs.
set -e
cd "$(dirname "$0")"
export CARGO_NET_OFFLINE=true
mkdir -p work evidence
( cd harness && CARGO_TARGET_DIR=target-rc cargo build --offline -q )
( cd harness && CARGO_TARGET_DIR=target-arc cargo build --offline -q --no-default-features --features arc )
for f in spec/*.tla; do
  m=$(basename "$f" .tla)
  ( cd spec && java -cp /opt/veriftools/tla/tla2tools.jar:/opt/veriftools/tla/CommunityModules-deps.jar tla2sany.SANY "$m.tla" >/dev/null ) || { echo "SANY failed on $m"; exit 1; }
done
echo setup ok
